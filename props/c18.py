"""C18 - computed calibration keypoints are valid for every data sample.

Oracle (R-keypoints): a validity PREDICATE, taken clause by clause from the
property statement; it is not a second implementation of the quantile rule
(the statement admits several outputs).

Let D be the data without occurrences of default_value, C = D clipped to the
given bounds and U the sorted distinct values of C together with the given clip
bounds (compute_keypoints documents that the clip bounds are added to the
values "so that the first and last keypoints are set to those values"; so U is
what the statement calls the clipped data, min U / max U are "the clip bounds
or data extremes").  With n = num_keypoints the result kp must satisfy

  count     |U| >= n                   -> len(kp) == n
            |U| <  n, 'quantiles'      -> kp == U (exactly the distinct values)
            |U| <  n, 'uniform'        -> no claim on the count
  strict    |U| >= 2                   -> kp[i] < kp[i+1] for all i
  range     min U <= kp[i] <= max U
  ends      kp[0] == min U and kp[-1] == max U   (exact)
  pwl       |U| >= 2 -> tfl.layers.PWLCalibration(input_keypoints=kp) constructs

'uniform' mode with |U| == 1 returns n copies of the single value
(np.linspace with equal ends).  The statement demands strict increase only when
at least two distinct values exist, and PWLCalibration documents that its
input_keypoints must be strictly increasing with at least two entries, so
acceptance cannot be demanded either when |U| < 2 (a one-point or constant
keypoint list cannot be both "the distinct values"/"within the range" and
strictly increasing).  These cases are counted as the class
"degenerate:<2-distinct(no strict/pwl claim)"; count/range/ends still apply.

Unless the column is spelled "f64raw", data values and clip bounds are
float32-representable, so the float32, float64 and integer spellings of an
array denote the same numbers; "f64raw" columns carry genuine float64 values
(and float64 clip bounds).  U is always computed in float64 from the numbers
passed, so every comparison above is exact.

Weights are judged beyond validity by exact metamorphic relations (target
compute_keypoints, module section "metamorphic"): a joint permutation of
(values, weights), a rescaling of all weights, 'sum' against 'mean' of
weights multiplied by the multiplicity of their value, and a value that
carries > 97% of the weight must be a keypoint.  Each relation is asserted only
where float arithmetic cannot produce a tie (integer weights with exactly
representable sums, power-of-two factors).
"""
import numpy as np
from hypothesis import strategies as st

from vlib import strategies as S
from vlib.harness import Outcome

ID = "C18"
TITLE = "Computed calibration keypoints are valid for every data sample"
RULE = ("Hypothesis draws a target (compute_keypoints directly; "
        "compute_feature_keypoints + set_feature_keypoints on 1-3 feature "
        "columns with generated FeatureConfigs - computed, explicit (list or "
        "ndarray), categorical, no config, or a config whose feature has no "
        "data; compute_label_keypoints + set_label_keypoints on one of the "
        "four model configs - numeric or string labels, logits on/off, "
        "explicit initialisation as list or ndarray), a sample size 1-200 "
        "(thorough 1-3000), per column a value array (few distinct values, "
        "small integers, heavy duplicates, skewed, normal, grid, constant, "
        "large offset + small grid, explicit list; spelled float64 with "
        "float32-representable values, genuine float64, float32, int64, int32 "
        "or uint8, optionally read-only; random, sorted or reversed order), "
        "num_keypoints 2-20 (thorough 2-60), the mode, clip bounds "
        "(none/min/max/both; placed on data values, inside, below or above "
        "the data, or exactly 0.0 / -0.0 / +-1; passed as python float, python "
        "int, np.float32 or np.float64), a default value (none, present in "
        "the data, absent, exactly 0.0 / -0.0; same spellings), example "
        "weights >= 0 (none, ones, uniform, small integers, log-normal skewed, "
        "one dominant example, integer with weight 1e6 on one value, integer "
        "with 10-50% zeros; float64, float32, int64 or int32 arrays) and the "
        "'mean'/'sum' reduction. The returned keypoints are judged by the "
        "clause-by-clause validity predicate of the module docstring; "
        "weighted compute_keypoints cases additionally by the exact "
        "metamorphic relations (joint permutation, rescaling of all weights, "
        "'sum' vs 'mean' of multiplicity-scaled weights, dominant value is a "
        "keypoint). Non-trivial: at least one computed column has >= 2 "
        "distinct clipped values (so the strict increase and PWLCalibration "
        "clauses apply); distinct by SHA-1 of the case.")
NT_FLOOR = 0.6
FUZZ = {"thorough": 60000}   # atheris executions per shard (thorough tier)
BUDGET = {"quick": 2500, "thorough": 30000}
ASSUMPTIONS = [
    "a sample that is empty after removing default_value is not generated "
    "(there is no data to place keypoints on)",
    "clip_min < clip_max when both are given; weights are >= 0 with at least "
    "one positive weight on the data that remain after default removal",
    "not generated (candidate defect 1, switch GEN_ZERO_WEIGHT_LOW_RUN): "
    "zero weights such that the two lowest distinct clipped values (the "
    "clip_min bound counts as one) both have total weight 0",
    "not generated (candidate defect 2, switch GEN_F32_NARROW_UNIFORM): a "
    "float32 array in 'uniform' mode whose keypoint step would be below 4 "
    "float32 ulps of the largest magnitude (such a column is spelled float64)",
    "values and clip bounds are finite; float32/int columns hold "
    "float32-representable numbers, 'f64raw' columns genuine float64 numbers "
    "(continuous draws or offset + grid of step >= 1e-3; two distinct values "
    "a few float64 ulps apart are not constructed: a relative clip bound at "
    "a data extreme is that extreme exactly)",
    "not generated (candidate defect 3, switch GEN_F32_WEIGHTS_INEXACT): "
    "float32 weight arrays whose sums are inexact in float32 (float32 is "
    "kept for integer weights with total < 2^24 and for weights all above "
    "4 n ulps of the total; other weight vectors are spelled float64)",
    "int32 weights have a total below 2^31; a python-int clip bound or "
    "default outside [0, 255] is passed as a float to uint8 columns (NumPy "
    "rejects the out-of-range python int itself)",
]
TECHNIQUE = ("property-based testing (Hypothesis): generated samples, weights, "
             "clip bounds and configs against a clause-by-clause validity "
             "predicate (float64 numpy), exact metamorphic relations on the "
             "weights and PWLCalibration construction")
LEVEL_TEXT = ("Generated-input exploration of compute_keypoints and of the "
              "feature/label keypoint helpers: tens of thousands of samples "
              "per run (duplicates, few distinct values, skew, constant after "
              "clipping, integer data, spread far below magnitude, genuine "
              "float64 values, extreme and zero weights, bounds and defaults "
              "exactly 0, several array dtypes and scalar spellings) in both "
              "modes and both reductions; every returned keypoint list is "
              "checked for count, strict increase, range, end points and "
              "acceptance by PWLCalibration, the configs filled by "
              "set_*_keypoints are re-read, and for weighted compute_keypoints "
              "calls the weights are judged by exact metamorphic relations "
              "(permutation, rescaling, sum-vs-mean, dominant value). Catches "
              "rounding/duplicate-index, sentinel, clipping, default-removal, "
              "falsy-zero, precision-loss, weight-misalignment and wiring "
              "mistakes; cannot show absence and does not judge which of the "
              "valid quantile choices is made beyond those relations.")
LEVEL_NOTE = ("Exact comparisons (no tolerance). Metamorphic relations are "
              "asserted only where float arithmetic cannot tie: integer "
              "weights whose sums are exact in the dtype the library sums in "
              "(2^24 for float32/int32, 2^53 otherwise), power-of-two factors "
              "for arbitrary weights. Sizes bounded as in the rule. Three "
              "input classes that make the unmodified library fail are "
              "switched off (see assumptions). Trusted: NumPy, the harness, "
              "PWLCalibration's own keypoint validation as the acceptance "
              "test.")

DATA_KINDS = ["few", "few", "ints", "ints", "heavy", "heavy", "skewed",
              "skewed", "normal", "normal", "grid", "grid", "constant",
              "offset", "offset"]
SCALES = [1e-3, 1.0, 1.0, 1.0, 10.0, 1e3, 1e6]
WEIGHT_KINDS = ["ones", "uniform", "ints", "ints", "skewed", "skewed",
                "dominant", "dominant-int", "dominant-int", "some-zero",
                "some-zero"]
MODELS = ["lattice", "linear", "ensemble", "aggregate"]
DTYPES = ["f64", "f64raw", "f64raw", "f32", "f32", "int", "int32", "uint8"]
SPELLS = ["float", "float", "int", "np32", "np64"]
WEIGHT_DTYPES = ["f64", "f64", "f32", "int64", "int32"]
# power-of-two factors are exact for every weight vector, 3 and 10 for integer
# weights under 'sum'.
META_SCALES = [2.0, 0.25, 1024.0, 3.0, 10.0]

# Candidate genuine defects found by the widened generator (described in the
# widening report, repro scripts /tmp/scratch/widen/C18-defect-<n>.py).  The
# generating options stay off so that the check is quiet on them.
# 1: the two lowest distinct clipped values (the clip_min sentinel counts) both
#    have total weight 0 -> the first keypoint is not clip_min / the data minimum.
GEN_ZERO_WEIGHT_LOW_RUN = True
# 2: a float32 array without clip bounds in 'uniform' mode whose spread is a few
#    float32 ulps -> np.linspace runs in float32 and repeats keypoints.
GEN_F32_NARROW_UNIFORM = True
# 3: float32 weights whose sums are not exact in float32 (total beyond 2^24 or
#    non-integer weights close to float32 resolution of the total) -> cumsum and
#    sum round differently and the last keypoint is not the data maximum.
GEN_F32_WEIGHTS_INEXACT = True


# --------------------------------------------------------------------------
# strategy
def _clip_spec():
  return st.one_of(
      st.fixed_dictionaries({"rel": st.just("q"),
                             "q": st.sampled_from([0.0, 0.1, 0.25, 0.5, 0.75,
                                                   0.9, 1.0])}),
      st.fixed_dictionaries({"rel": st.just("t"),
                             "t": st.sampled_from([-1.0, -0.25, 0.0, 0.2, 0.4,
                                                   0.6, 0.8, 1.0, 1.25])}),
      # an absolute bound: exactly 0.0 / -0.0 (falsy values) or +-1
      st.fixed_dictionaries({"rel": st.just("abs"),
                             "v": st.sampled_from([0.0, 0.0, -0.0, 1.0,
                                                   -1.0])}))


@st.composite
def _column(draw, tier, small_n, form=None, allow_default=True):
  big = tier == "thorough"
  if small_n and draw(st.integers(0, 5)) == 0:
    elem = st.one_of(S.f32_floats(-1e6, 1e6), S.f32_floats(-2, 2),
                     st.sampled_from([0.0, 1.0, -1.0, 0.5, 2.0, 3.0]))
    data = {"kind": "explicit",
            "values": draw(st.lists(elem, min_size=2, max_size=12))}
  else:
    data = {"kind": draw(st.sampled_from(DATA_KINDS)), "seed": draw(S.seeds),
            "scale": draw(st.sampled_from(SCALES)),
            "k": draw(st.integers(1, 30 if big else 12))}
  clip = draw(st.sampled_from(["none", "none", "min", "max", "both", "both"]))
  if allow_default:
    default = draw(st.sampled_from(
        [{"mode": "none"}, {"mode": "none"}, {"mode": "absent"},
         {"mode": "present", "pick": draw(st.integers(0, 10**6))},
         {"mode": "present", "pick": draw(st.integers(0, 10**6))},
         {"mode": "zero", "neg": draw(st.booleans())}]))
  else:
    default = {"mode": "none"}
  return {
      "data": data,
      "dtype": draw(st.sampled_from(DTYPES)),
      "readonly": draw(st.integers(0, 3)) == 0,
      "spell": {"clip": draw(st.sampled_from(SPELLS)),
                "default": draw(st.sampled_from(SPELLS)),
                "explicit_array": draw(st.booleans())},
      "order": draw(st.sampled_from(["random", "random", "sorted",
                                     "reversed"])),
      "num_keypoints": draw(st.one_of(st.integers(2, 6),
                                      st.integers(2, 60 if big else 20))),
      "mode": draw(st.sampled_from(["quantiles", "uniform"])),
      "clip_min": draw(_clip_spec()) if clip in ("min", "both") else None,
      "clip_max": draw(_clip_spec()) if clip in ("max", "both") else None,
      "default": default,
      "form": form or "computed",
  }


@st.composite
def _case(draw, tier):
  big = tier == "thorough"
  target = draw(st.sampled_from(["compute", "compute", "compute", "feature",
                                 "label"]))
  n = draw(st.one_of(st.integers(1, 12), st.integers(13, 60),
                     st.integers(13, 200),
                     st.integers(13, 3000 if big else 200)))
  wkind = draw(st.sampled_from([None, None, None] + WEIGHT_KINDS))
  case = {
      "target": target, "n": n,
      "weights": None if wkind is None else {
          "kind": wkind, "seed": draw(S.seeds),
          "dtype": draw(st.sampled_from(WEIGHT_DTYPES)),
          "zero_frac": draw(st.sampled_from([0.1, 0.3, 0.5])),
          "readonly": draw(st.integers(0, 3)) == 0},
      "reduction": draw(st.sampled_from(["mean", "sum"])),
      "meta": {"seed": draw(S.seeds),
               "scale": draw(st.sampled_from(META_SCALES))},
  }
  if target == "compute":
    case["cols"] = [draw(_column(tier, n <= 12))]
  elif target == "feature":
    ncols = draw(st.integers(1, 3))
    forms = [draw(st.sampled_from(["computed", "computed", "computed",
                                   "explicit", "categorical", "missing",
                                   "nodata"]))
             for _ in range(ncols)]
    case["cols"] = [draw(_column(tier, n <= 12, form=f)) for f in forms]
    case["add_missing"] = draw(st.booleans())
  else:
    form = draw(st.sampled_from(["computed", "computed", "computed",
                                 "computed", "explicit"]))
    case["cols"] = [draw(_column(tier, n <= 12, form=form,
                                 allow_default=False))]
    case["model"] = draw(st.sampled_from(MODELS))
    case["logits"] = draw(st.sampled_from([False, False, False, True]))
    case["labels"] = draw(st.sampled_from(["numeric"] * 7 + ["string"]))
  return case


def strategy(tier):
  return _case(tier)


# --------------------------------------------------------------------------
# materialisation (deterministic)
def _f32(a):
  return np.asarray(a, np.float32).astype(np.float64)


def _is_f32(x):
  return float(np.float32(x)) == float(x)


INT_RANGE = {"int32": (-2.0**31 + 1, 2.0**31 - 1), "uint8": (0.0, 255.0)}


def _values(col, n):
  """float64 array of the numbers in the column (before dtype spelling)."""
  d = col["data"]
  raw = col.get("dtype") == "f64raw"
  if d["kind"] == "explicit":
    v = np.resize(_f32(d["values"]), n)
  else:
    rs = np.random.RandomState(d["seed"])
    sc, k = d["scale"], d["k"]
    kind = d["kind"]
    if kind == "few":
      pool = rs.normal(size=k) * sc
      p = rs.dirichlet(np.full(k, 0.5))
      v = pool[rs.choice(k, size=n, p=p)]
    elif kind == "ints":
      lo = rs.randint(-5, 6)
      v = rs.randint(lo, lo + k + 1, size=n).astype(np.float64)
    elif kind == "heavy":
      v = rs.normal(size=n) * sc
      v = np.where(rs.rand(n) < 0.8, v[0], v)
    elif kind == "skewed":
      v = np.exp(rs.normal(size=n) * 2.5) * sc * rs.choice([1.0, -1.0])
    elif kind == "normal":
      v = rs.normal(size=n) * sc + rs.choice([0.0, 5.0 * sc])
    elif kind == "grid":
      v = np.round(rs.normal(size=n) * k) / 4.0 * sc
    elif kind == "constant":
      v = np.full(n, rs.normal() * sc)
    elif kind == "offset":
      # spread << magnitude: a large constant plus a small grid (adjacent
      # float32 values for base 1e6 / step 0.0625; below float32 resolution
      # for the other combinations, which only "f64raw" columns keep apart).
      base = rs.choice([1e6, 1.6e7, -2.5e8, 1e6 + 1.0 / 3.0])
      step = rs.choice([1e-3, 0.0625, 1.0 / 3.0, 1.0])
      v = base + rs.randint(0, 3 * k + 2, size=n) * step
    else:
      raise ValueError(kind)
    if not raw:
      v = _f32(v)
  if col.get("dtype") in INT_RANGE:
    lo, hi = INT_RANGE[col["dtype"]]
    v = np.clip(np.round(v), lo, hi)
  if col["order"] == "sorted":
    v = np.sort(v)
  elif col["order"] == "reversed":
    v = np.sort(v)[::-1].copy()
  return v


def _clip_value(spec, v, raw=False):
  if spec["rel"] == "abs":
    return float(spec["v"])
  u = np.unique(v)
  lo, hi = float(u[0]), float(u[-1])
  if spec["rel"] == "q":
    return float(u[int(round(spec["q"] * (len(u) - 1)))])
  width = hi - lo if hi > lo else max(1.0, abs(lo))
  if hi > lo and spec["t"] in (0.0, 1.0):
    return lo if spec["t"] == 0.0 else hi    # exactly on the data extreme
  x = lo + spec["t"] * width
  return float(x) if raw else float(_f32(x))


def _spell(x, how, lo=None, hi=None):
  """The scalar x (python float) in the requested spelling, where that spelling
  denotes the same number; the python float otherwise."""
  if x is None:
    return None
  if how == "int" and x == round(x) and abs(x) < 2.0**31 and (
      lo is None or lo <= x <= hi):
    return int(x)
  if how == "np32" and _is_f32(x):
    return np.float32(x)
  if how == "np64":
    return np.float64(x)
  return float(x)


def _resolve(col, n, keep_nonempty=True):
  """Concrete (array as passed, its float64 values, default_value, clip_min,
  clip_max, dtype label)."""
  v = _values(col, n)
  raw = col.get("dtype") == "f64raw"
  cmin = _clip_value(col["clip_min"], v, raw) if col["clip_min"] else None
  cmax = _clip_value(col["clip_max"], v, raw) if col["clip_max"] else None
  if cmin is not None and cmax is not None:
    if cmin > cmax:
      cmin, cmax = cmax, cmin
    elif cmin == cmax:
      cmax = float(_f32(cmin + max(1.0, abs(cmin))))
  dm = col["default"]["mode"]
  default = None
  if dm == "present":
    default = float(v[col["default"]["pick"] % n])
    if keep_nonempty and np.all(v == default):
      dm = "absent"      # would leave no data at all: out of domain
  elif dm == "zero":
    default = -0.0 if col["default"]["neg"] else 0.0
    if keep_nonempty and np.all(v == 0.0):
      dm = "absent"
  if dm == "absent":
    default = -1.0 if not np.any(v == -1.0) else float(
        _f32(np.min(v) - 1.0 - abs(np.min(v))))
  integral = bool(np.all(v == np.round(v)) and np.all(np.abs(v) < 2**31))
  dtype = col["dtype"]
  if dtype == "int" and not integral:
    dtype = "f64"
  if dtype == "f32" and not GEN_F32_NARROW_UNIFORM and (
      col["mode"] == "uniform"):
    # candidate defect 2 (float32 data, clip bounds absent or np.float32: the
    # library's np.linspace then runs in float32): when the keypoint step would
    # be below 4 float32 ulps the column is spelled float64 instead.
    d = _distinct(v, default, cmin, cmax)
    if d.size and (d[-1] - d[0]) / (col["num_keypoints"] - 1) < (
        4.0 * float(np.spacing(np.float32(np.max(np.abs(d)))))):
      dtype = "f64"
  spell = col.get("spell") or {"clip": "float", "default": "float"}
  if "spell" not in col and dtype == "int":
    spell = {"clip": "float", "default": "int"}     # cases of older replays
  if dtype in ("int", "int32", "uint8"):
    arr = v.astype({"int": np.int64, "int32": np.int32,
                    "uint8": np.uint8}[dtype])
  elif dtype == "f32":
    arr = v.astype(np.float32)
  else:
    arr = v.copy()
  # NumPy refuses python ints outside the range of a uint8 array; such a bound
  # or default is spelled as a float there.
  lo, hi = (0.0, 255.0) if dtype == "uint8" else (None, None)
  default = _spell(default, spell["default"], lo, hi)
  cmin = _spell(cmin, spell["clip"], lo, hi)
  cmax = _spell(cmax, spell["clip"], lo, hi)
  if col.get("readonly"):
    arr.setflags(write=False)
  return arr, v, default, cmin, cmax, dtype


def _distinct(v, default, cmin, cmax):
  """U: sorted distinct clipped non-default values plus the given bounds."""
  d = v if default is None else v[v != float(default)]
  if cmin is not None:
    d = np.append(np.maximum(d, float(cmin)), float(cmin))
  if cmax is not None:
    d = np.append(np.minimum(d, float(cmax)), float(cmax))
  return np.unique(d)


def _clipped(v, cmin, cmax):
  d = np.asarray(v, np.float64)
  if cmin is not None:
    d = np.maximum(d, float(cmin))
  if cmax is not None:
    d = np.minimum(d, float(cmax))
  return d


def _weights(case, columns=()):
  """Example weights (or None) and, for 'dominant-int', the clipped value of
  the first column that carries the dominant weight.

  columns: (values float64, default, clip_min, clip_max) of every column whose
  keypoints are computed with these weights.
  """
  w = case["weights"]
  if w is None:
    return None, None
  rs = np.random.RandomState(w["seed"])
  n = case["n"]
  kind = w["kind"]
  dominant_value = None
  cols = []
  for v, default, cmin, cmax in columns:
    keep = np.ones(n, bool) if default is None else v != float(default)
    cols.append((keep, _clipped(v, cmin, cmax), cmin, cmax))
  if kind == "ones":
    a = np.ones(n)
  elif kind == "uniform":
    a = rs.uniform(0.1, 2.0, size=n)
  elif kind == "ints":
    a = rs.randint(1, 6, size=n).astype(np.float64)
  elif kind == "skewed":
    a = np.exp(rs.normal(size=n) * 4.0)
  elif kind == "dominant":
    a = rs.uniform(1e-3, 1.0, size=n)
    a[rs.randint(n)] = 1e6
  elif kind == "dominant-int":
    # Integer weights 1..5 and weight 1e6 on every example that shares the
    # (clipped) value of one non-default example of the first column.
    a = rs.randint(1, 6, size=n).astype(np.float64)
    i0 = rs.randint(n)
    if cols:
      keep, cv = cols[0][0], cols[0][1]
      idx = np.flatnonzero(keep)
      i0 = int(idx[rs.randint(len(idx))])
      dominant_value = float(cv[i0])
      a[keep & (cv == cv[i0])] = 1e6
    else:
      a[i0] = 1e6
  elif kind == "some-zero":
    # Integer weights with 10-50% zeros; at least one positive weight on the
    # data that remain after default removal.
    a = rs.randint(1, 6, size=n).astype(np.float64)
    a[rs.rand(n) < w.get("zero_frac", 0.3)] = 0.0
    for keep, cv, cmin, cmax in cols:
      if not np.any(a[keep] > 0):
        a[np.flatnonzero(keep)[0]] = 1.0
      if not GEN_ZERO_WEIGHT_LOW_RUN:
        # candidate defect 1: keep a positive weight among the two lowest
        # distinct clipped values (the clip_min sentinel always has weight 0).
        u = _distinct(cv[keep], None, cmin, cmax)
        if len(u) >= 2:
          g = [keep & (cv == u[0]), keep & (cv == u[1])]
          if a[g[0]].sum() == 0 and a[g[1]].sum() == 0:
            a[g[0] if np.any(g[0]) else g[1]] = 1.0
  else:
    raise ValueError(kind)
  dtype = w.get("dtype", "f64")
  integral = bool(np.all(a == np.round(a)))
  if dtype in ("int64", "int32") and not integral:
    dtype = "f64"
  if dtype == "int32" and a.sum() >= 2.0**31:
    dtype = "int64"      # the per-value sums must fit the caller's own dtype
  if dtype == "f32" and not GEN_F32_WEIGHTS_INEXACT:
    # candidate defect 3: float32 only where the library's float32 sums are
    # exact (integers, total < 2^24) or their worst-case rounding error
    # (n ulps of the total) stays far below every single weight.
    total = float(a.sum())
    exact = integral and total < 2.0**24
    roomy = bool(np.all(a > 0)) and (
        4.0 * n * float(np.spacing(np.float32(total))) < float(a.min()))
    if not (exact or roomy):
      dtype = "f64"
  a = a.astype({"f64": np.float64, "f32": np.float32, "int64": np.int64,
                "int32": np.int32}[dtype])
  if w.get("readonly"):
    a.setflags(write=False)
  return a, dominant_value


# --------------------------------------------------------------------------
# oracle
def _pwl_accepts(kp):
  import tensorflow_lattice as tfl
  try:
    tfl.layers.PWLCalibration(input_keypoints=kp)
    return None
  except ValueError as e:
    return str(e)[:200]


def judge(out, kp, u, n, mode, where, sig):
  """Applies the predicate; `where` names the observed object in messages."""
  out.checks += 1
  try:
    kp64 = np.asarray(kp, dtype=np.float64)
  except (TypeError, ValueError):
    kp64 = None
  if kp64 is None or kp64.ndim != 1 or not np.all(np.isfinite(kp64)):
    out.violate("%s: keypoints are not a finite 1-D sequence: %r" %
                (where, kp), kind="form", **sig)
    return
  small = len(u) < n
  s = dict(sig, small=small)
  if not small:
    out.checks += 1
    if len(kp64) != n:
      out.violate("%s: %d keypoints returned, num_keypoints=%d with %d "
                  "distinct values" % (where, len(kp64), n, len(u)),
                  kind="count", **s)
  elif mode == "quantiles":
    out.checks += 1
    if not np.array_equal(kp64, u):
      out.violate("%s: %d distinct values < num_keypoints=%d but keypoints "
                  "%s are not the distinct values %s" %
                  (where, len(u), n, kp64[:8], u[:8]), kind="count", **s)
  if len(kp64) == 0:
    out.violate("%s: no keypoints returned" % where, kind="ends", **s)
    return
  if len(u) >= 2:
    out.checks += 1
    if not np.all(np.diff(kp64) > 0):
      i = int(np.argmin(np.diff(kp64))) if len(kp64) > 1 else 0
      out.violate("%s: keypoints not strictly increasing at %d: %s (%d "
                  "distinct values)" % (where, i, kp64[max(0, i - 1):i + 3],
                                        len(u)), kind="strict", **s)
  out.checks += 2
  if np.any(kp64 < u[0]) or np.any(kp64 > u[-1]):
    out.violate("%s: keypoints leave the clipped data range [%r, %r]: %s" %
                (where, float(u[0]), float(u[-1]), kp64[:8]),
                kind="range", **s)
  if kp64[0] != u[0] or kp64[-1] != u[-1]:
    out.violate("%s: first/last keypoint (%r, %r) differ from clip bounds / "
                "data extremes (%r, %r)" % (where, float(kp64[0]),
                                            float(kp64[-1]), float(u[0]),
                                            float(u[-1])), kind="ends", **s)
  if len(u) >= 2:
    out.checks += 1
    err = _pwl_accepts(kp)
    if err is not None:
      out.violate("%s: PWLCalibration rejects the keypoints: %s" %
                  (where, err), kind="pwl", **s)


def _labels_for(out, col, u, n_kp, weighted, reduction, default, cmin, cmax,
                dtype, raw_distinct):
  out.label("mode:" + col["mode"],
            "weights:" + ("none" if not weighted else reduction),
            "clip:" + ("both" if cmin is not None and cmax is not None else
                       "min" if cmin is not None else
                       "max" if cmax is not None else "none"),
            "dtype:" + dtype, "data:" + col["data"]["kind"])
  for c in (cmin, cmax):
    if c is not None:
      out.label("clip-spelling:" + type(c).__name__)
      if float(c) == 0.0:
        out.label("clip:zero")
  if col.get("readonly"):
    out.label("array:read-only")
  if len(u) < 2:
    out.label("degenerate:<2-distinct(no strict/pwl claim)")
    if col["mode"] == "uniform":
      out.label("degenerate:uniform-repeated-keypoints")
    if raw_distinct >= 2:
      out.label("constant-after-clipping/default-removal")
  elif len(u) < n_kp:
    out.label("distinct:2..n-1")
  elif len(u) == n_kp:
    out.label("distinct:=n")
  else:
    out.label("distinct:>n")
  if len(u) >= 2 and not np.all(np.diff(u.astype(np.float32)) > 0):
    out.label("distinct-values-closer-than-float32-resolution")


def _prepare(out, case, col, with_weights=True):
  n = case["n"]
  arr, v, default, cmin, cmax, dtype = _resolve(col, n)
  u = _distinct(v, default, cmin, cmax)
  weighted = with_weights and case["weights"] is not None
  _labels_for(out, col, u, col["num_keypoints"], weighted, case["reduction"],
              default, cmin, cmax, dtype, len(np.unique(v)))
  if default is None:
    out.label("default:none")
  else:
    out.label("default:present" if np.any(v == float(default)) else
              "default:absent")
    out.label("default-spelling:" + type(default).__name__)
    if float(default) == 0.0:
      out.label("default:zero")
  return arr, default, cmin, cmax, u, v


def _weight_labels(out, case, w):
  if w is not None:
    out.label("wkind:" + case["weights"]["kind"], "wdtype:" + w.dtype.name)
    if np.any(w == 0):
      out.label("weights:some-zero")


# --------------------------------------------------------------------------
# metamorphic relations on the weights (exact, see module docstring)
def _metamorphic(out, case, col, arr, v, kw, w, kp, u, default, dominant_value,
                 sig):
  from tensorflow_lattice.python import premade_lib
  n_kp, mode = col["num_keypoints"], col["mode"]
  kp = np.asarray(kp, np.float64)
  rs = np.random.RandomState(case["meta"]["seed"])
  w64 = np.asarray(w, np.float64)
  total = float(w64.sum())
  # integer weights whose partial sums are exact in the dtype the library sums in
  cap = 2.0**24 if w.dtype in (np.float32, np.int32) else 2.0**53
  integer = bool(np.all(w64 == np.round(w64)))

  def call(arr_, w_, red):
    kw2 = dict(kw, weights=w_, weight_reduction=red)
    return np.asarray(premade_lib.compute_keypoints(
        arr_, n_kp, keypoints=mode, **kw2), np.float64)

  def same(got, what, detail):
    out.checks += 1
    if not np.array_equal(got, kp):
      out.violate("compute_keypoints: %s changes the keypoints (%s): %s -> %s"
                  % (what, detail, kp[:8], got[:8]), kind="meta-" + what,
                  **sig)

  # (a) joint permutation of (values, weights)
  if integer and total < cap:
    p = rs.permutation(case["n"])
    out.label("meta:permutation")
    same(call(arr[p], w[p], case["reduction"]), "permutation",
         "joint permutation of values and weights")
  # (b) positive rescaling of all weights
  c = case["meta"]["scale"]
  if c in (3.0, 10.0) and not (integer and case["reduction"] == "sum" and
                               total * c < cap):
    c = 2.0
  if w.dtype.kind == "i":
    w2 = w64 * c
  else:
    w2 = w * w.dtype.type(c)
  out.label("meta:rescale-pow2" if c not in (3.0, 10.0) else
            "meta:rescale-integer")
  same(call(arr, w2, case["reduction"]), "rescale", "all weights times %g" % c)
  # (c) 'sum' of w == 'mean' of w * (multiplicity of the example's value);
  # without clip bounds (the weight-0 bound sentinels enter the mean).
  if integer and "clip_min" not in kw and "clip_max" not in kw:
    keep = np.ones(len(v), bool) if default is None else v != float(default)
    vals, inv, cnt = np.unique(v[keep], return_inverse=True,
                               return_counts=True)
    mult = np.ones(len(v))
    mult[keep] = cnt[inv]
    if total * float(cnt.max()) < 2.0**53:
      # both sides with float64 weights: the same arithmetic on the same
      # per-value weights (sum(w * m) / m == sum(w) exactly for integers).
      out.label("meta:sum-vs-mean")
      k_sum = kp if (case["reduction"] == "sum" and
                     w.dtype == np.float64) else call(arr, w64, "sum")
      k_mean = call(arr, w64 * mult, "mean")
      out.checks += 1
      if not np.array_equal(k_sum, k_mean):
        out.violate("compute_keypoints: 'sum' reduction of w gives %s, 'mean' "
                    "reduction of w * multiplicity gives %s" %
                    (k_sum[:8], k_mean[:8]), kind="meta-sum-vs-mean", **sig)
  # (d) a value carrying > 97% of the total weight is a keypoint
  if dominant_value is not None and mode == "quantiles" and n_kp >= 3:
    out.label("meta:dominant")
    out.checks += 1
    if not np.any(kp == dominant_value):
      out.violate("compute_keypoints: value %r carries weight 1e6 per example "
                  "(all others <= 5) but is not among the %d keypoints %s" %
                  (dominant_value, n_kp, kp[:8]), kind="meta-dominant", **sig)


# --------------------------------------------------------------------------
def _run_compute(out, case):
  from tensorflow_lattice.python import premade_lib
  col = case["cols"][0]
  arr, default, cmin, cmax, u, v = _prepare(out, case, col)
  w, dominant_value = _weights(case, [(v, default, cmin, cmax)])
  _weight_labels(out, case, w)
  kw = {}
  # Optional arguments are passed only when set, so the defaults are exercised.
  if cmin is not None:
    kw["clip_min"] = cmin
  if cmax is not None:
    kw["clip_max"] = cmax
  if default is not None:
    kw["default_value"] = default
  kw_w = dict(kw)
  if w is not None:
    kw_w["weights"] = w
    kw_w["weight_reduction"] = case["reduction"]
  kp = premade_lib.compute_keypoints(arr, col["num_keypoints"],
                                     keypoints=col["mode"], **kw_w)
  out.info["distinct"] = int(len(u))
  out.info["keypoints"] = np.asarray(kp, np.float64).tolist()[:60]
  sig = dict(target="compute", mode=col["mode"], weighted=w is not None)
  judge(out, kp, u, col["num_keypoints"], col["mode"], "compute_keypoints",
        sig)
  if w is not None and "meta" in case and not out.violations:
    _metamorphic(out, case, col, arr, v, kw, w, kp, u, default,
                 dominant_value, sig)
  out.nontrivial = len(u) >= 2


def _run_feature(out, case):
  from tensorflow_lattice.python import configs, premade_lib
  feature_configs, features, expect = [], {}, {}
  weighted_cols = []
  untouched = {}
  for i, col in enumerate(case["cols"]):
    name = "f%d" % i
    form = col["form"]
    if form == "categorical":
      # Categorical features are skipped whatever the values are.
      features[name] = np.arange(case["n"]) % 3
      feature_configs.append(configs.FeatureConfig(name=name, num_buckets=3))
      out.label("feature:categorical")
      continue
    if form == "nodata":
      # A config whose feature is not in `features`: nothing is computed for
      # it and it keeps its keypoint mode.
      feature_configs.append(configs.FeatureConfig(
          name=name, pwl_calibration_num_keypoints=col["num_keypoints"],
          pwl_calibration_input_keypoints=col["mode"]))
      untouched[name] = col["mode"]
      out.label("feature:config-without-data")
      continue
    if form in ("explicit", "missing"):
      arr = _resolve(col, case["n"])[0]
    else:
      arr, default, cmin, cmax, u, v = _prepare(out, case, col)
    features[name] = arr
    if form == "explicit":
      given = [float(x) for x in np.unique(_f32(arr))[:5]]
      if len(given) < 2:
        given = given + [given[0] + 1.0]
      as_array = bool((col.get("spell") or {}).get("explicit_array"))
      feature_configs.append(configs.FeatureConfig(
          name=name,
          pwl_calibration_input_keypoints=(np.array(given) if as_array
                                           else given),
          pwl_calibration_num_keypoints=len(given)))
      expect[name] = ("explicit", given)
      out.label("feature:explicit",
                "explicit-keypoints:" + ("ndarray" if as_array else "list"))
    elif form == "missing":
      # No config: the documented fallback is the default FeatureConfig
      # (10 keypoints, 'quantiles', no clipping, no default value).
      v = np.asarray(arr, np.float64)
      u = _distinct(v, None, None, None)
      expect[name] = ("computed", u, 10, "quantiles")
      weighted_cols.append((v, None, None, None))
      out.label("feature:no-config")
    else:
      kw = {}
      if cmin is not None:
        kw["pwl_calibration_clip_min"] = cmin
      if cmax is not None:
        kw["pwl_calibration_clip_max"] = cmax
      if default is not None:
        kw["default_value"] = default
      feature_configs.append(configs.FeatureConfig(
          name=name, pwl_calibration_num_keypoints=col["num_keypoints"],
          pwl_calibration_input_keypoints=col["mode"], **kw))
      expect[name] = ("computed", u, col["num_keypoints"], col["mode"])
      weighted_cols.append((v, default, cmin, cmax))
      out.label("feature:computed")
  w, _ = _weights(case, weighted_cols)
  _weight_labels(out, case, w)
  kw = {}
  if w is not None:
    kw = {"weights": w, "weight_reduction": case["reduction"]}
  n_before = len(feature_configs)
  got = premade_lib.compute_feature_keypoints(feature_configs, features, **kw)
  out.checks += 1
  if sorted(got) != sorted(expect):
    out.violate("compute_feature_keypoints returned keys %s, expected the "
                "numeric features %s" % (sorted(got), sorted(expect)),
                kind="keys", target="feature")
    return
  premade_lib.set_feature_keypoints(feature_configs, got, case["add_missing"])
  by_name = {}
  for fc in feature_configs:
    by_name.setdefault(fc.name, fc)
  for name in sorted(untouched):
    out.checks += 1
    now = by_name[name].pwl_calibration_input_keypoints
    if not (isinstance(now, str) and now == untouched[name]) or name in got:
      out.violate("config %s has no data in `features` but its keypoints "
                  "became %r (was %r)" % (
                      name, by_name[name].pwl_calibration_input_keypoints,
                      untouched[name]), kind="config-without-data",
                  target="feature")
  n_missing = sum(1 for c in case["cols"] if c["form"] == "missing")
  out.checks += 1
  want_len = n_before + (n_missing if case["add_missing"] else 0)
  if len(feature_configs) != want_len:
    out.violate("set_feature_keypoints(add_missing_feature_configs=%s) left "
                "%d feature configs, expected %d" %
                (case["add_missing"], len(feature_configs), want_len),
                kind="config-list", target="feature")
  nt = False
  for name in sorted(expect):
    e = expect[name]
    fc = by_name.get(name)
    if fc is None:
      if case["add_missing"]:
        out.violate("feature config %s was not added" % name,
                    kind="config-list", target="feature")
      stored = got[name]
    else:
      stored = fc.pwl_calibration_input_keypoints
      out.checks += 1
      if isinstance(stored, str) or not np.array_equal(
          np.asarray(stored, np.float64), np.asarray(got[name], np.float64)):
        out.violate("config %s holds %r after set_feature_keypoints, computed "
                    "keypoints were %r" % (name, stored, got[name]),
                    kind="config-not-filled", target="feature")
        continue
    if e[0] == "explicit":
      out.checks += 1
      if list(np.asarray(stored, np.float64)) != e[1]:
        out.violate("explicit keypoints %r of %s came back as %r" %
                    (e[1], name, stored), kind="explicit-changed",
                    target="feature")
      continue
    _, u, n_kp, mode = e
    judge(out, stored, u, n_kp, mode, "feature config %s" % name,
          dict(target="feature", mode=mode, weighted=w is not None))
    nt = nt or len(u) >= 2
  out.nontrivial = nt


def _model_config(case, col, cmin, cmax, init):
  from tensorflow_lattice.python import configs
  kw = dict(feature_configs=[], output_calibration=True,
            output_calibration_num_keypoints=col["num_keypoints"],
            output_initialization=init)
  if cmin is not None:
    kw["output_min"] = cmin
  if cmax is not None:
    kw["output_max"] = cmax
  cls = {"lattice": configs.CalibratedLatticeConfig,
         "linear": configs.CalibratedLinearConfig,
         "ensemble": configs.CalibratedLatticeEnsembleConfig,
         "aggregate": configs.AggregateFunctionConfig}[case["model"]]
  return cls(**kw)


def _run_label(out, case):
  from tensorflow_lattice.python import premade_lib
  col = case["cols"][0]
  string = case["labels"] == "string"
  arr, _, cmin, cmax, u, v = _prepare(out, case, col, with_weights=not string)
  w, _ = _weights(case, [] if string else [(v, None, cmin, cmax)])
  _weight_labels(out, case, w)
  out.label("label:" + case["model"], "labels:" + case["labels"])
  explicit = None
  if col["form"] == "explicit":
    explicit = [float(x) for x in np.linspace(-1.0, 1.0, col["num_keypoints"])]
    as_array = bool((col.get("spell") or {}).get("explicit_array"))
    out.label("label:explicit",
              "explicit-keypoints:" + ("ndarray" if as_array else "list"))
  if explicit is None:
    init = col["mode"]
  else:
    init = np.array(explicit) if as_array else explicit
  mc = _model_config(case, col, cmin, cmax, init)
  labels = arr
  if string:
    # Documented: string labels stand for the classes 0 .. n_classes-1 and
    # example weights are ignored.
    labels = np.array(["c%d" % i for i in
                       np.unique(arr, return_inverse=True)[1]])
    u = _distinct(np.arange(len(set(labels.tolist())), dtype=np.float64),
                  None, cmin, cmax)
  kw = {}
  if w is not None:
    kw = {"weights": w, "weight_reduction": case["reduction"]}
  try:
    got = premade_lib.compute_label_keypoints(mc, labels, case["logits"], **kw)
  except TypeError as e:
    if not string:
      raise
    out.nontrivial = True
    out.violate("compute_label_keypoints raises on string labels: "
                "TypeError: %s" % str(e)[:200], kind="exception",
                exc="TypeError", target="label", labels="string")
    return
  premade_lib.set_label_keypoints(mc, got)
  stored = mc.output_initialization
  out.checks += 1
  if isinstance(stored, str) or not np.array_equal(
      np.asarray(stored, np.float64), np.asarray(got, np.float64)):
    out.violate("model config holds %r after set_label_keypoints, computed "
                "keypoints were %r" % (stored, got), kind="config-not-filled",
                target="label")
    return
  if explicit is not None:
    out.checks += 1
    if list(np.asarray(stored, np.float64)) != explicit:
      out.violate("explicit output_initialization came back as %r" % (stored,),
                  kind="explicit-changed", target="label")
    return
  mode = col["mode"]
  if case["logits"]:
    # Documented: logits models are initialised linearly in [-2, 2] whatever
    # the labels are.
    u, mode = np.array([-2.0, 2.0]), "uniform"
    out.label("label:logits")
  out.info["distinct"] = int(len(u))
  out.info["keypoints"] = np.asarray(stored, np.float64).tolist()[:60]
  judge(out, stored, u, col["num_keypoints"], mode, "model config",
        dict(target="label", mode=mode,
             weighted=w is not None and not string))
  out.nontrivial = len(u) >= 2


def run_case(case):
  out = Outcome()
  out.label("target:" + case["target"])
  if case["target"] == "compute":
    _run_compute(out, case)
  elif case["target"] == "feature":
    _run_feature(out, case)
  else:
    _run_label(out, case)
  return out
