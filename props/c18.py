"""C18 - computed calibration keypoints are valid for every data sample.

Oracle (R-keypoints): a validity PREDICATE, taken clause by clause from the
property statement; it is not a second implementation of the quantile rule
(the statement admits several outputs).

Let D be the data without occurrences of default_value, C = D clipped to the
given bounds and U the sorted distinct values of C together with the given clip
bounds (compute_keypoints documents that the clip bounds are added to the
values "so that the first and last keypoints are set to those values"; so U is
what the statement calls the clipped data, min U / max U are "the clip bounds
or data extremes").  With n = num_keypoints the result kp must satisfy

  count     |U| >= n                   -> len(kp) == n
            |U| <  n, 'quantiles'      -> kp == U (exactly the distinct values)
            |U| <  n, 'uniform'        -> no claim on the count
  strict    |U| >= 2                   -> kp[i] < kp[i+1] for all i
  range     min U <= kp[i] <= max U
  ends      kp[0] == min U and kp[-1] == max U   (exact)
  pwl       |U| >= 2 -> tfl.layers.PWLCalibration(input_keypoints=kp) constructs

'uniform' mode with |U| == 1 returns n copies of the single value
(np.linspace with equal ends).  The statement demands strict increase only when
at least two distinct values exist, and PWLCalibration documents that its
input_keypoints must be strictly increasing with at least two entries, so
acceptance cannot be demanded either when |U| < 2 (a one-point or constant
keypoint list cannot be both "the distinct values"/"within the range" and
strictly increasing).  These cases are counted as the class
"degenerate:<2-distinct(no strict/pwl claim)"; count/range/ends still apply.

All data values and clip bounds are float32-representable, so the float32,
float64 and int64 spellings of an array denote the same numbers and every
comparison above is exact.
"""
import numpy as np
from hypothesis import strategies as st

from vlib import strategies as S
from vlib.harness import Outcome

ID = "C18"
TITLE = "Computed calibration keypoints are valid for every data sample"
RULE = ("Hypothesis draws a target (compute_keypoints directly; "
        "compute_feature_keypoints + set_feature_keypoints on 1-3 feature "
        "columns with generated FeatureConfigs - computed, explicit, "
        "categorical, or no config; compute_label_keypoints + "
        "set_label_keypoints on one of the four model configs - numeric or "
        "string labels, logits on/off, explicit initialisation), a sample "
        "size 1-200 (thorough 1-3000), per column a value array (few distinct "
        "values, small integers, heavy duplicates, skewed, normal, grid, "
        "constant, explicit list; float64/float32/int64 spelling; random, "
        "sorted or reversed order), num_keypoints 2-20 (thorough 2-60), the "
        "mode, clip bounds (none/min/max/both; placed on data values, inside, "
        "below or above the data), a default value (none, present in the "
        "data, absent), example weights > 0 (none, ones, uniform, small "
        "integers, log-normal skewed, one dominant) and the 'mean'/'sum' "
        "reduction. The returned keypoints are judged by the clause-by-clause "
        "validity predicate of the module docstring. Non-trivial: at least "
        "one computed column has >= 2 distinct clipped values (so the strict "
        "increase and PWLCalibration clauses apply); distinct by SHA-1 of the "
        "case.")
NT_FLOOR = 0.6
FUZZ = {"thorough": 60000}   # atheris executions per shard (thorough tier)
BUDGET = {"quick": 2500, "thorough": 30000}
ASSUMPTIONS = [
    "a sample that is empty after removing default_value is not generated "
    "(there is no data to place keypoints on)",
    "clip_min < clip_max when both are given; weights are strictly positive",
    "values and clip bounds are float32-representable finite numbers",
]
TECHNIQUE = ("property-based testing (Hypothesis): generated samples, weights, "
             "clip bounds and configs against a clause-by-clause validity "
             "predicate (float64 numpy) and PWLCalibration construction")
LEVEL_TEXT = ("Generated-input exploration of compute_keypoints and of the "
              "feature/label keypoint helpers: tens of thousands of samples "
              "per run (duplicates, few distinct values, skew, constant after "
              "clipping, integer data, extreme weights) in both modes and both "
              "reductions; every returned keypoint list is checked for count, "
              "strict increase, range, end points and acceptance by "
              "PWLCalibration, and the configs filled by set_*_keypoints are "
              "re-read. Catches rounding/duplicate-index, sentinel, clipping, "
              "default-removal and wiring mistakes; cannot show absence and "
              "does not judge which of the valid quantile choices is made.")
LEVEL_NOTE = ("Exact comparisons (no tolerance). Sizes bounded as in the rule. "
              "Trusted: NumPy, the harness, PWLCalibration's own keypoint "
              "validation as the acceptance test.")

DATA_KINDS = ["few", "few", "ints", "ints", "heavy", "heavy", "skewed",
              "skewed", "normal", "normal", "grid", "grid", "constant"]
SCALES = [1e-3, 1.0, 1.0, 1.0, 10.0, 1e3, 1e6]
WEIGHT_KINDS = ["ones", "uniform", "ints", "skewed", "skewed", "dominant"]
MODELS = ["lattice", "linear", "ensemble", "aggregate"]


# --------------------------------------------------------------------------
# strategy
def _clip_spec():
  return st.one_of(
      st.fixed_dictionaries({"rel": st.just("q"),
                             "q": st.sampled_from([0.0, 0.1, 0.25, 0.5, 0.75,
                                                   0.9, 1.0])}),
      st.fixed_dictionaries({"rel": st.just("t"),
                             "t": st.sampled_from([-1.0, -0.25, 0.0, 0.2, 0.4,
                                                   0.6, 0.8, 1.0, 1.25])}))


@st.composite
def _column(draw, tier, small_n, form=None, allow_default=True):
  big = tier == "thorough"
  if small_n and draw(st.integers(0, 5)) == 0:
    elem = st.one_of(S.f32_floats(-1e6, 1e6), S.f32_floats(-2, 2),
                     st.sampled_from([0.0, 1.0, -1.0, 0.5, 2.0, 3.0]))
    data = {"kind": "explicit",
            "values": draw(st.lists(elem, min_size=2, max_size=12))}
  else:
    data = {"kind": draw(st.sampled_from(DATA_KINDS)), "seed": draw(S.seeds),
            "scale": draw(st.sampled_from(SCALES)),
            "k": draw(st.integers(1, 30 if big else 12))}
  clip = draw(st.sampled_from(["none", "none", "min", "max", "both", "both"]))
  if allow_default:
    default = draw(st.sampled_from(
        [{"mode": "none"}, {"mode": "none"}, {"mode": "absent"},
         {"mode": "present", "pick": draw(st.integers(0, 10**6))},
         {"mode": "present", "pick": draw(st.integers(0, 10**6))}]))
  else:
    default = {"mode": "none"}
  return {
      "data": data,
      "dtype": draw(st.sampled_from(["f64", "f64", "f32", "int"])),
      "order": draw(st.sampled_from(["random", "random", "sorted",
                                     "reversed"])),
      "num_keypoints": draw(st.one_of(st.integers(2, 6),
                                      st.integers(2, 60 if big else 20))),
      "mode": draw(st.sampled_from(["quantiles", "uniform"])),
      "clip_min": draw(_clip_spec()) if clip in ("min", "both") else None,
      "clip_max": draw(_clip_spec()) if clip in ("max", "both") else None,
      "default": default,
      "form": form or "computed",
  }


@st.composite
def _case(draw, tier):
  big = tier == "thorough"
  target = draw(st.sampled_from(["compute", "compute", "compute", "feature",
                                 "label"]))
  n = draw(st.one_of(st.integers(1, 12), st.integers(13, 60),
                     st.integers(13, 200),
                     st.integers(13, 3000 if big else 200)))
  wkind = draw(st.sampled_from([None, None] + WEIGHT_KINDS))
  case = {
      "target": target, "n": n,
      "weights": None if wkind is None else {"kind": wkind,
                                             "seed": draw(S.seeds)},
      "reduction": draw(st.sampled_from(["mean", "sum"])),
  }
  if target == "compute":
    case["cols"] = [draw(_column(tier, n <= 12))]
  elif target == "feature":
    ncols = draw(st.integers(1, 3))
    forms = [draw(st.sampled_from(["computed", "computed", "computed",
                                   "explicit", "categorical", "missing"]))
             for _ in range(ncols)]
    case["cols"] = [draw(_column(tier, n <= 12, form=f)) for f in forms]
    case["add_missing"] = draw(st.booleans())
  else:
    form = draw(st.sampled_from(["computed", "computed", "computed",
                                 "computed", "explicit"]))
    case["cols"] = [draw(_column(tier, n <= 12, form=form,
                                 allow_default=False))]
    case["model"] = draw(st.sampled_from(MODELS))
    case["logits"] = draw(st.sampled_from([False, False, False, True]))
    case["labels"] = draw(st.sampled_from(["numeric"] * 7 + ["string"]))
  return case


def strategy(tier):
  return _case(tier)


# --------------------------------------------------------------------------
# materialisation (deterministic; all values float32-representable)
def _f32(a):
  return np.asarray(a, np.float32).astype(np.float64)


def _values(col, n):
  d = col["data"]
  if d["kind"] == "explicit":
    v = np.resize(_f32(d["values"]), n)
  else:
    rs = np.random.RandomState(d["seed"])
    sc, k = d["scale"], d["k"]
    kind = d["kind"]
    if kind == "few":
      pool = rs.normal(size=k) * sc
      p = rs.dirichlet(np.full(k, 0.5))
      v = pool[rs.choice(k, size=n, p=p)]
    elif kind == "ints":
      lo = rs.randint(-5, 6)
      v = rs.randint(lo, lo + k + 1, size=n).astype(np.float64)
    elif kind == "heavy":
      v = rs.normal(size=n) * sc
      v = np.where(rs.rand(n) < 0.8, v[0], v)
    elif kind == "skewed":
      v = np.exp(rs.normal(size=n) * 2.5) * sc * rs.choice([1.0, -1.0])
    elif kind == "normal":
      v = rs.normal(size=n) * sc + rs.choice([0.0, 5.0 * sc])
    elif kind == "grid":
      v = np.round(rs.normal(size=n) * k) / 4.0 * sc
    elif kind == "constant":
      v = np.full(n, rs.normal() * sc)
    else:
      raise ValueError(kind)
    v = _f32(v)
  if col["order"] == "sorted":
    v = np.sort(v)
  elif col["order"] == "reversed":
    v = np.sort(v)[::-1].copy()
  return v


def _clip_value(spec, v):
  u = np.unique(v)
  lo, hi = float(u[0]), float(u[-1])
  if spec["rel"] == "q":
    return float(u[int(round(spec["q"] * (len(u) - 1)))])
  width = hi - lo if hi > lo else max(1.0, abs(lo))
  return float(_f32(lo + spec["t"] * width))


def _weights(case):
  w = case["weights"]
  if w is None:
    return None
  rs = np.random.RandomState(w["seed"])
  n = case["n"]
  kind = w["kind"]
  if kind == "ones":
    return np.ones(n)
  if kind == "uniform":
    return rs.uniform(0.1, 2.0, size=n)
  if kind == "ints":
    return rs.randint(1, 6, size=n).astype(np.float64)
  if kind == "skewed":
    return np.exp(rs.normal(size=n) * 4.0)
  if kind == "dominant":
    a = rs.uniform(1e-3, 1.0, size=n)
    a[rs.randint(n)] = 1e6
    return a
  raise ValueError(kind)


def _resolve(col, n, keep_nonempty=True):
  """Concrete (values array as passed, default_value, clip_min, clip_max)."""
  v = _values(col, n)
  cmin = _clip_value(col["clip_min"], v) if col["clip_min"] else None
  cmax = _clip_value(col["clip_max"], v) if col["clip_max"] else None
  if cmin is not None and cmax is not None:
    if cmin > cmax:
      cmin, cmax = cmax, cmin
    elif cmin == cmax:
      cmax = float(_f32(cmin + max(1.0, abs(cmin))))
  dm = col["default"]["mode"]
  default = None
  if dm == "present":
    default = float(v[col["default"]["pick"] % n])
    if keep_nonempty and np.all(v == default):
      dm = "absent"      # would leave no data at all: out of domain
  if dm == "absent":
    default = -1.0 if not np.any(v == -1.0) else float(
        _f32(np.min(v) - 1.0 - abs(np.min(v))))
  integral = bool(np.all(v == np.round(v)) and np.all(np.abs(v) < 2**31))
  dtype = col["dtype"]
  if dtype == "int" and not integral:
    dtype = "f64"
  if dtype == "int":
    arr = v.astype(np.int64)
    if default is not None and default == round(default):
      default = int(default)
  elif dtype == "f32":
    arr = v.astype(np.float32)
  else:
    arr = v.copy()
  return arr, v, default, cmin, cmax, dtype


def _distinct(v, default, cmin, cmax):
  """U: sorted distinct clipped non-default values plus the given bounds."""
  d = v if default is None else v[v != float(default)]
  if cmin is not None:
    d = np.append(np.maximum(d, cmin), cmin)
  if cmax is not None:
    d = np.append(np.minimum(d, cmax), cmax)
  return np.unique(d)


# --------------------------------------------------------------------------
# oracle
def _pwl_accepts(kp):
  import tensorflow_lattice as tfl
  try:
    tfl.layers.PWLCalibration(input_keypoints=kp)
    return None
  except ValueError as e:
    return str(e)[:200]


def judge(out, kp, u, n, mode, where, sig):
  """Applies the predicate; `where` names the observed object in messages."""
  out.checks += 1
  try:
    kp64 = np.asarray(kp, dtype=np.float64)
  except (TypeError, ValueError):
    kp64 = None
  if kp64 is None or kp64.ndim != 1 or not np.all(np.isfinite(kp64)):
    out.violate("%s: keypoints are not a finite 1-D sequence: %r" %
                (where, kp), kind="form", **sig)
    return
  small = len(u) < n
  s = dict(sig, small=small)
  if not small:
    out.checks += 1
    if len(kp64) != n:
      out.violate("%s: %d keypoints returned, num_keypoints=%d with %d "
                  "distinct values" % (where, len(kp64), n, len(u)),
                  kind="count", **s)
  elif mode == "quantiles":
    out.checks += 1
    if not np.array_equal(kp64, u):
      out.violate("%s: %d distinct values < num_keypoints=%d but keypoints "
                  "%s are not the distinct values %s" %
                  (where, len(u), n, kp64[:8], u[:8]), kind="count", **s)
  if len(kp64) == 0:
    out.violate("%s: no keypoints returned" % where, kind="ends", **s)
    return
  if len(u) >= 2:
    out.checks += 1
    if not np.all(np.diff(kp64) > 0):
      i = int(np.argmin(np.diff(kp64))) if len(kp64) > 1 else 0
      out.violate("%s: keypoints not strictly increasing at %d: %s (%d "
                  "distinct values)" % (where, i, kp64[max(0, i - 1):i + 3],
                                        len(u)), kind="strict", **s)
  out.checks += 2
  if np.any(kp64 < u[0]) or np.any(kp64 > u[-1]):
    out.violate("%s: keypoints leave the clipped data range [%r, %r]: %s" %
                (where, float(u[0]), float(u[-1]), kp64[:8]),
                kind="range", **s)
  if kp64[0] != u[0] or kp64[-1] != u[-1]:
    out.violate("%s: first/last keypoint (%r, %r) differ from clip bounds / "
                "data extremes (%r, %r)" % (where, float(kp64[0]),
                                            float(kp64[-1]), float(u[0]),
                                            float(u[-1])), kind="ends", **s)
  if len(u) >= 2:
    out.checks += 1
    err = _pwl_accepts(kp)
    if err is not None:
      out.violate("%s: PWLCalibration rejects the keypoints: %s" %
                  (where, err), kind="pwl", **s)


def _labels_for(out, col, u, n_kp, weighted, reduction, default, cmin, cmax,
                dtype, raw_distinct):
  out.label("mode:" + col["mode"],
            "weights:" + ("none" if not weighted else reduction),
            "clip:" + ("both" if cmin is not None and cmax is not None else
                       "min" if cmin is not None else
                       "max" if cmax is not None else "none"),
            "dtype:" + dtype, "data:" + col["data"]["kind"])
  if len(u) < 2:
    out.label("degenerate:<2-distinct(no strict/pwl claim)")
    if col["mode"] == "uniform":
      out.label("degenerate:uniform-repeated-keypoints")
    if raw_distinct >= 2:
      out.label("constant-after-clipping/default-removal")
  elif len(u) < n_kp:
    out.label("distinct:2..n-1")
  elif len(u) == n_kp:
    out.label("distinct:=n")
  else:
    out.label("distinct:>n")


def _prepare(out, case, col, with_weights=True):
  n = case["n"]
  arr, v, default, cmin, cmax, dtype = _resolve(col, n)
  u = _distinct(v, default, cmin, cmax)
  weighted = with_weights and case["weights"] is not None
  _labels_for(out, col, u, col["num_keypoints"], weighted, case["reduction"],
              default, cmin, cmax, dtype, len(np.unique(v)))
  if default is None:
    out.label("default:none")
  else:
    out.label("default:present" if np.any(v == float(default)) else
              "default:absent")
  return arr, default, cmin, cmax, u


# --------------------------------------------------------------------------
def _run_compute(out, case):
  from tensorflow_lattice.python import premade_lib
  col = case["cols"][0]
  arr, default, cmin, cmax, u = _prepare(out, case, col)
  w = _weights(case)
  kw = {}
  # Optional arguments are passed only when set, so the defaults are exercised.
  if cmin is not None:
    kw["clip_min"] = cmin
  if cmax is not None:
    kw["clip_max"] = cmax
  if default is not None:
    kw["default_value"] = default
  if w is not None:
    kw["weights"] = w
    kw["weight_reduction"] = case["reduction"]
  kp = premade_lib.compute_keypoints(arr, col["num_keypoints"],
                                     keypoints=col["mode"], **kw)
  out.info["distinct"] = int(len(u))
  out.info["keypoints"] = np.asarray(kp, np.float64).tolist()[:60]
  judge(out, kp, u, col["num_keypoints"], col["mode"], "compute_keypoints",
        dict(target="compute", mode=col["mode"], weighted=w is not None))
  out.nontrivial = len(u) >= 2


def _run_feature(out, case):
  from tensorflow_lattice.python import configs, premade_lib
  w = _weights(case)
  feature_configs, features, expect = [], {}, {}
  for i, col in enumerate(case["cols"]):
    name = "f%d" % i
    form = col["form"]
    if form == "categorical":
      # Categorical features are skipped whatever the values are.
      features[name] = np.arange(case["n"]) % 3
      feature_configs.append(configs.FeatureConfig(name=name, num_buckets=3))
      out.label("feature:categorical")
      continue
    if form in ("explicit", "missing"):
      arr = _resolve(col, case["n"])[0]
    else:
      arr, default, cmin, cmax, u = _prepare(out, case, col)
    features[name] = arr
    if form == "explicit":
      given = [float(x) for x in np.unique(_f32(arr))[:5]]
      if len(given) < 2:
        given = given + [given[0] + 1.0]
      feature_configs.append(configs.FeatureConfig(
          name=name, pwl_calibration_input_keypoints=given,
          pwl_calibration_num_keypoints=len(given)))
      expect[name] = ("explicit", given)
      out.label("feature:explicit")
    elif form == "missing":
      # No config: the documented fallback is the default FeatureConfig
      # (10 keypoints, 'quantiles', no clipping, no default value).
      u = _distinct(np.asarray(arr, np.float64), None, None, None)
      expect[name] = ("computed", u, 10, "quantiles")
      out.label("feature:no-config")
    else:
      kw = {}
      if cmin is not None:
        kw["pwl_calibration_clip_min"] = cmin
      if cmax is not None:
        kw["pwl_calibration_clip_max"] = cmax
      if default is not None:
        kw["default_value"] = default
      feature_configs.append(configs.FeatureConfig(
          name=name, pwl_calibration_num_keypoints=col["num_keypoints"],
          pwl_calibration_input_keypoints=col["mode"], **kw))
      expect[name] = ("computed", u, col["num_keypoints"], col["mode"])
      out.label("feature:computed")
  kw = {}
  if w is not None:
    kw = {"weights": w, "weight_reduction": case["reduction"]}
  n_before = len(feature_configs)
  got = premade_lib.compute_feature_keypoints(feature_configs, features, **kw)
  out.checks += 1
  if sorted(got) != sorted(expect):
    out.violate("compute_feature_keypoints returned keys %s, expected the "
                "numeric features %s" % (sorted(got), sorted(expect)),
                kind="keys", target="feature")
    return
  premade_lib.set_feature_keypoints(feature_configs, got, case["add_missing"])
  by_name = {}
  for fc in feature_configs:
    by_name.setdefault(fc.name, fc)
  n_missing = sum(1 for c in case["cols"] if c["form"] == "missing")
  out.checks += 1
  want_len = n_before + (n_missing if case["add_missing"] else 0)
  if len(feature_configs) != want_len:
    out.violate("set_feature_keypoints(add_missing_feature_configs=%s) left "
                "%d feature configs, expected %d" %
                (case["add_missing"], len(feature_configs), want_len),
                kind="config-list", target="feature")
  nt = False
  for name in sorted(expect):
    e = expect[name]
    fc = by_name.get(name)
    if fc is None:
      if case["add_missing"]:
        out.violate("feature config %s was not added" % name,
                    kind="config-list", target="feature")
      stored = got[name]
    else:
      stored = fc.pwl_calibration_input_keypoints
      out.checks += 1
      if isinstance(stored, str) or not np.array_equal(
          np.asarray(stored, np.float64), np.asarray(got[name], np.float64)):
        out.violate("config %s holds %r after set_feature_keypoints, computed "
                    "keypoints were %r" % (name, stored, got[name]),
                    kind="config-not-filled", target="feature")
        continue
    if e[0] == "explicit":
      out.checks += 1
      if list(np.asarray(stored, np.float64)) != e[1]:
        out.violate("explicit keypoints %r of %s came back as %r" %
                    (e[1], name, stored), kind="explicit-changed",
                    target="feature")
      continue
    _, u, n_kp, mode = e
    judge(out, stored, u, n_kp, mode, "feature config %s" % name,
          dict(target="feature", mode=mode, weighted=w is not None))
    nt = nt or len(u) >= 2
  out.nontrivial = nt


def _model_config(case, col, cmin, cmax, init):
  from tensorflow_lattice.python import configs
  kw = dict(feature_configs=[], output_calibration=True,
            output_calibration_num_keypoints=col["num_keypoints"],
            output_initialization=init)
  if cmin is not None:
    kw["output_min"] = cmin
  if cmax is not None:
    kw["output_max"] = cmax
  cls = {"lattice": configs.CalibratedLatticeConfig,
         "linear": configs.CalibratedLinearConfig,
         "ensemble": configs.CalibratedLatticeEnsembleConfig,
         "aggregate": configs.AggregateFunctionConfig}[case["model"]]
  return cls(**kw)


def _run_label(out, case):
  from tensorflow_lattice.python import premade_lib
  col = case["cols"][0]
  string = case["labels"] == "string"
  arr, _, cmin, cmax, u = _prepare(out, case, col, with_weights=not string)
  w = _weights(case)
  out.label("label:" + case["model"], "labels:" + case["labels"])
  explicit = None
  if col["form"] == "explicit":
    explicit = [float(x) for x in np.linspace(-1.0, 1.0, col["num_keypoints"])]
    out.label("label:explicit")
  mc = _model_config(case, col, cmin, cmax, explicit or col["mode"])
  labels = arr
  if string:
    # Documented: string labels stand for the classes 0 .. n_classes-1 and
    # example weights are ignored.
    labels = np.array(["c%d" % i for i in
                       np.unique(arr, return_inverse=True)[1]])
    u = _distinct(np.arange(len(set(labels.tolist())), dtype=np.float64),
                  None, cmin, cmax)
  kw = {}
  if w is not None:
    kw = {"weights": w, "weight_reduction": case["reduction"]}
  try:
    got = premade_lib.compute_label_keypoints(mc, labels, case["logits"], **kw)
  except TypeError as e:
    if not string:
      raise
    out.nontrivial = True
    out.violate("compute_label_keypoints raises on string labels: "
                "TypeError: %s" % str(e)[:200], kind="exception",
                exc="TypeError", target="label", labels="string")
    return
  premade_lib.set_label_keypoints(mc, got)
  stored = mc.output_initialization
  out.checks += 1
  if isinstance(stored, str) or not np.array_equal(
      np.asarray(stored, np.float64), np.asarray(got, np.float64)):
    out.violate("model config holds %r after set_label_keypoints, computed "
                "keypoints were %r" % (stored, got), kind="config-not-filled",
                target="label")
    return
  if explicit is not None:
    out.checks += 1
    if list(np.asarray(stored, np.float64)) != explicit:
      out.violate("explicit output_initialization came back as %r" % (stored,),
                  kind="explicit-changed", target="label")
    return
  mode = col["mode"]
  if case["logits"]:
    # Documented: logits models are initialised linearly in [-2, 2] whatever
    # the labels are.
    u, mode = np.array([-2.0, 2.0]), "uniform"
    out.label("label:logits")
  out.info["distinct"] = int(len(u))
  out.info["keypoints"] = np.asarray(stored, np.float64).tolist()[:60]
  judge(out, stored, u, col["num_keypoints"], mode, "model config",
        dict(target="label", mode=mode,
             weighted=w is not None and not string))
  out.nontrivial = len(u) >= 2


def run_case(case):
  out = Outcome()
  out.label("target:" + case["target"])
  if case["target"] == "compute":
    _run_compute(out, case)
  elif case["target"] == "feature":
    _run_feature(out, case)
  else:
    _run_label(out, case)
  return out
