"""C07 - KroneckerFactoredLattice is monotone and bounded after its constraints.

History property: a rule-based state machine assigns kernels and scales
(any sign pattern, zeros, flips), applies the kernel and scale constraints in
any order, or calls finalize_constraints(); whenever both constraints have been
applied since the last assignment the layer function is judged on the full
half-integer grid (plus out-of-range points) against the documented claims and
against the float64 dense-kernel reference.
"""
import itertools

import numpy as np
from hypothesis import strategies as st
from hypothesis.stateful import (RuleBasedStateMachine, initialize, precondition,
                                 rule)

from vlib import oracles as R
from vlib import strategies as S
from vlib.harness import Outcome, TOL_F, TOL_MONO_F, safe_run

ID = "C07"
TITLE = "KroneckerFactoredLattice after its constraints gives monotone, bounded outputs"
RULE = ("A Hypothesis RuleBasedStateMachine builds a KroneckerFactoredLattice "
        "(lattice_sizes 2-4, dims 1-4, units 1-3, terms 1-4, monotonicity "
        "subsets incl. none, bounds {none,min,max,both}, clip_inputs on/off) "
        "and runs a generated history of assign_kernel / assign_scale (signs "
        "incl. zeros and flips) / assign_bias (unbounded layers) / "
        "apply_kernel_constraint / apply_scale_constraint / finalize; after "
        "every step at which both constraints have been applied since the last "
        "assignment the function is evaluated on the full half-integer grid and "
        "on out-of-range points. Non-trivial: a history with at least one "
        "judged state reached after an assignment that violated monotonicity "
        "or bounds on the grid before the constraints ran; distinct by SHA-1 "
        "of (config, operation list).")
NT_FLOOR = 0.3
BUDGET = {"quick": 80, "thorough": 1500}
STEP_COUNT = {"quick": 10, "thorough": 25}
TECHNIQUE = ("stateful property-based testing (Hypothesis RuleBasedStateMachine) "
             "with a float64 dense-kernel reference model and grid evaluation")
LEVEL_TEXT = ("Model-based exploration of update/constraint histories of the "
              "layer: generated sequences of variable assignments and constraint "
              "applications in every order; in each clean state the real layer "
              "is evaluated on all half-integer grid points and compared with "
              "the documented claims (non-decreasing along increasing inputs, "
              "inside the bounds, equal to the dense reference).")
LEVEL_NOTE = ("Grid = all points with coordinates in {0, .5, 1, ...}; finer "
              "violations between grid points are impossible for a multilinear "
              "function (it is monotone along an axis iff it is on cell edges). "
              "Tolerances 1e-5 relative (monotone pairs, bounds) and 1e-4 "
              "(reference equality). Trusted: tf_keras applies variable "
              "constraints the way the machine does (variable.assign("
              "constraint(variable))).")


# ---------------------------------------------------------------- config
@st.composite
def kfl_config(draw, tier="quick"):
  size = draw(st.integers(2, 4))
  dims = draw(st.integers(1, 4 if size < 4 else 3))
  mm = draw(st.sampled_from(["none", "all", "some", "some"]))
  mono = [0 if mm == "none" else 1 if mm == "all" else draw(st.integers(0, 1))
          for _ in range(dims)]
  bm = draw(st.sampled_from(["none", "min", "max", "both", "both"]))
  if mm == "none" and bm == "none" and draw(st.integers(0, 3)) > 0:
    bm = draw(st.sampled_from(["min", "max", "both"]))
  lo = S.f32(draw(st.sampled_from([-10.0, -1.0, 0.0, 0.5, 100.0])))
  width = S.f32(draw(st.sampled_from([0.5, 1.0, 3.0, 1000.0])))
  return {"size": size, "dims": dims, "units": draw(st.integers(1, 3)),
          "terms": draw(st.integers(1, 4)), "mono": mono,
          "omin": lo if bm in ("min", "both") else None,
          "omax": S.f32(lo + width) if bm in ("max", "both") else None,
          "clip": draw(st.booleans()), "init_seed": draw(st.integers(0, 999))}


KERNEL_KINDS = ["normal", "normal", "uniform", "ints", "sorted", "antisorted",
                "constant", "spike", "zeros", "ties"]
op_assign_kernel = st.fixed_dictionaries({
    "op": st.just("assign_kernel"),
    "desc": S.array_desc(kinds=KERNEL_KINDS,
                         scales=[1e-3, 0.3, 1.0, 1.0, 3.0, 30.0, 1e3])})
op_assign_scale = st.fixed_dictionaries({
    "op": st.just("assign_scale"),
    "desc": S.array_desc(kinds=["normal", "ints", "ties", "zeros", "uniform"],
                         scales=[1e-3, 1.0, 1.0, 10.0, 1e3])})
op_train_step = st.fixed_dictionaries({
    "op": st.just("train_step"), "lr": st.sampled_from([0.01, 1.0, 30.0]),
    "sign": st.sampled_from([-1.0, 1.0]), "seed": st.integers(0, 10**6)})
op_assign_bias = st.fixed_dictionaries({
    "op": st.just("assign_bias"),
    "desc": S.array_desc(kinds=["normal", "ints"], scales=[1.0, 100.0])})


# ---------------------------------------------------------------- model
class State(object):

  def __init__(self, cfg):
    import tensorflow as tf
    import tensorflow_lattice as tfl
    self.tf = tf
    self.cfg = cfg
    tf.random.set_seed(cfg["init_seed"])
    kw = dict(lattice_sizes=cfg["size"], units=cfg["units"],
              num_terms=cfg["terms"], output_min=cfg["omin"],
              output_max=cfg["omax"], clip_inputs=cfg["clip"])
    if any(cfg["mono"]):
      kw["monotonicities"] = list(cfg["mono"])
    self.layer = tfl.layers.KroneckerFactoredLattice(**kw)
    d, u = cfg["dims"], cfg["units"]
    self.layer.build(tf.TensorShape((None, d) if u == 1 else (None, u, d)))
    self.dirty_kernel = False
    self.dirty_scale = False
    self.violated_before = False
    self.judged = 0
    self.judged_after_violation = 0
    pts = list(itertools.product(
        *[np.arange(0, cfg["size"] - 0.5, 0.5)] * d))
    self.grid = np.array(pts, np.float32)            # (P, d), lexicographic
    self.gshape = [2 * cfg["size"] - 1] * d
    rs = np.random.RandomState(cfg["init_seed"])
    self.outside = (rs.uniform(-2, cfg["size"] + 1, size=(24, d))
                    ).astype(np.float32)

  def evaluate(self, pts):
    u = self.cfg["units"]
    x = pts if u == 1 else np.repeat(pts[:, None, :], u, axis=1)
    return self.layer(self.tf.constant(x)).numpy().astype(np.float64)

  def grid_measures(self):
    """(monotonicity violation, bound violation, scale) on the grid."""
    cfg = self.cfg
    y = self.evaluate(self.grid)                       # (P, units)
    sc = max(1.0, float(np.max(np.abs(y))))
    yg = y.reshape(self.gshape + [cfg["units"]])
    mono_v = 0.0
    for dd, m in enumerate(cfg["mono"]):
      if m:
        mono_v = max(mono_v, float(np.max(-np.diff(yg, axis=dd))))
    b = 0.0
    if cfg["omin"] is not None:
      b = max(b, float(cfg["omin"] - y.min()))
    if cfg["omax"] is not None:
      b = max(b, float(y.max() - cfg["omax"]))
    return mono_v, b, sc, y


def apply_op(state, op, out):
  tf, layer, cfg = state.tf, state.layer, state.cfg
  name = op["op"]
  if name == "assign_kernel":
    shape = tuple(layer.kernel.shape)
    k = S.materialize(op["desc"], (int(np.prod(shape)), 1)).reshape(shape)
    layer.kernel.assign(k)
    state.dirty_kernel = state.dirty_scale = True
  elif name == "assign_scale":
    shape = tuple(layer.scale.shape)
    s = S.materialize(op["desc"], (int(np.prod(shape)), 1)).reshape(shape)
    layer.scale.assign(s)
    state.dirty_kernel = state.dirty_scale = True
  elif name == "assign_bias":
    # any TRAINABLE variable may take any value during training; the bias of a
    # bounded layer is documented as fixed (non-trainable) and is left alone.
    if any(v is layer.bias for v in layer.trainable_variables):
      b = S.materialize(op["desc"], (cfg["units"], 1))[:, 0]
      layer.bias.assign(b)
  elif name == "train_step":
    # a real optimizer step: Keras updates every trainable variable and then
    # re-applies each variable's constraint.
    import tf_keras as keras
    rs = np.random.RandomState(op["seed"])
    x = rs.uniform(-0.5, cfg["size"] - 0.5, size=(8, cfg["dims"])).astype(
        np.float32)
    if cfg["units"] > 1:
      x = np.repeat(x[:, None, :], cfg["units"], axis=1)
    opt = keras.optimizers.SGD(learning_rate=op["lr"])
    with tf.GradientTape() as tape:
      y = layer(tf.constant(x))
      loss = op["sign"] * tf.reduce_mean(y) + 0.1 * tf.reduce_mean(
          (y - op["sign"] * -50.0) ** 2) * 0.0
    tv = layer.trainable_variables
    grads = tape.gradient(loss, tv)
    opt.apply_gradients([(g, v) for g, v in zip(grads, tv) if g is not None])
    state.dirty_kernel = state.dirty_scale = False
    state.violated_before = True
  elif name == "apply_kernel_constraint":
    if layer.kernel.constraint is not None:
      layer.kernel.assign(layer.kernel.constraint(layer.kernel))
    state.dirty_kernel = False
  elif name == "apply_scale_constraint":
    if layer.scale.constraint is not None:
      layer.scale.assign(layer.scale.constraint(layer.scale))
    state.dirty_scale = False
  elif name == "finalize":
    # finalize_constraints() computes kernel + (projected - kernel) in float32:
    # its rounding error scales with the kernel it started from.
    state.finalize_kmax = float(np.max(np.abs(layer.kernel.numpy())))
    layer.finalize_constraints()
    state.dirty_kernel = state.dirty_scale = False
  else:
    raise ValueError(name)
  out.label("op:" + name)
  if (name == "train_step" or getattr(state, "overflowed", False)) and not all(
      np.all(np.isfinite(v.numpy())) and np.max(np.abs(v.numpy())) <= 1e6
      for v in layer.variables):
    # weights beyond 1e6 (or non-finite) after an optimizer step: products over
    # dims overflow float32; the statement is about finite arithmetic, so the
    # state is not judged - neither now nor after later operations (finalize,
    # constraints) as long as the weights stay beyond 1e6.
    state.dirty_kernel = state.dirty_scale = True
    state.overflowed = True
    out.label("not-judged:weights-beyond-1e6")
    return
  if name.startswith("assign"):
    mv, bv, sc, _ = state.grid_measures()
    if mv > 1e-3 * sc or bv > 1e-3 * sc:
      state.violated_before = True
    return
  if state.dirty_kernel or state.dirty_scale:
    return
  judge_state(state, out, after=name)


def _finalize_slack(state, after, sc):
  """Extra absolute tolerance after finalize: dims factors, each with a
  relative error of a few ulp32(|kernel before|) on weights of size <= 1."""
  if after != "finalize":
    return 0.0
  rel = 8.0 * state.cfg["dims"] * float(np.spacing(np.float32(
      getattr(state, "finalize_kmax", 1.0))))
  return rel * sc


def judge_state(state, out, after):
  cfg = state.cfg
  state.judged += 1
  if state.violated_before:
    state.judged_after_violation += 1
  sig = dict(mono=bool(any(cfg["mono"])), bounds={
      (True, True): "none", (False, True): "min", (True, False): "max",
      (False, False): "both"}[(cfg["omin"] is None, cfg["omax"] is None)])
  mv, bv, sc, y = state.grid_measures()
  out.checks += 3
  if not np.all(np.isfinite(y)):
    out.violate("non-finite output after %s" % after, kind="finite", **sig)
    return
  slack = _finalize_slack(state, after, sc)
  if mv > TOL_MONO_F * sc + slack:
    out.violate("output decreases by %.3g along an increasing input after %s" %
                (mv, after), kind="monotonicity", **sig)
  if bv > 1e-5 * max(1.0, abs(cfg["omin"] or 0), abs(cfg["omax"] or 0)) + slack:
    out.violate("in-range output outside the bounds by %.3g after %s" %
                (bv, after), kind="bounds", **sig)
  # dense float64 reference
  layer = state.layer
  dense = R.kfl_dense_kernel(layer.kernel.numpy(), layer.scale.numpy(),
                             layer.bias.numpy(), cfg["size"], cfg["dims"],
                             cfg["units"], cfg["terms"])
  sizes = [cfg["size"]] * cfg["dims"]
  sub = state.grid[::max(1, len(state.grid) // 64)]
  ysub = state.evaluate(sub)
  for u in range(cfg["units"]):
    ref = R.interp_hypercube(sub.astype(np.float64), dense[:, u], sizes)
    out.checks += 1
    lim = TOL_F * max(1.0, float(np.max(np.abs(ref))),
                      float(np.max(np.abs(dense[:, u]))))
    if np.max(np.abs(ysub[:, u] - ref)) > lim:
      out.violate("layer output differs from the dense-kernel reference by "
                  "%.3g after %s" % (np.max(np.abs(ysub[:, u] - ref)), after),
                  kind="reference", **sig)
      break
  if cfg["clip"]:
    yo = state.evaluate(state.outside)
    out.checks += 2
    bo = 0.0
    if cfg["omin"] is not None:
      bo = max(bo, float(cfg["omin"] - yo.min()))
    if cfg["omax"] is not None:
      bo = max(bo, float(yo.max() - cfg["omax"]))
    if bo > 1e-5 * max(1.0, abs(cfg["omin"] or 0), abs(cfg["omax"] or 0)) + slack:
      out.violate("clipped out-of-range output outside the bounds by %.3g "
                  "after %s" % (bo, after), kind="bounds-outside", **sig)
    # monotone pairs for out-of-range points: move one increasing coordinate up
    for dd, m in enumerate(cfg["mono"]):
      if m:
        x2 = state.outside.copy()
        x2[:, dd] += 0.75
        y2 = state.evaluate(x2)
        sc2 = max(1.0, float(np.max(np.abs(yo))), float(np.max(np.abs(y2))))
        if np.max(yo - y2) > TOL_MONO_F * sc2 + slack:
          out.violate("output decreases along increasing input %d for "
                      "out-of-range points after %s" % (dd, after),
                      kind="monotonicity-outside", **sig)
          break


def play(cfg, ops):
  """Replays a history; returns the Outcome."""
  out = Outcome()
  state = State(cfg)
  out.label("mono:%s" % ("none" if not any(cfg["mono"]) else "some"),
            "bounds:%s" % ("none" if cfg["omin"] is None and cfg["omax"] is None
                           else "min" if cfg["omax"] is None else
                           "max" if cfg["omin"] is None else "both"),
            "units:%d" % cfg["units"], "terms:%d" % cfg["terms"],
            "dims:%d" % cfg["dims"], "clip:%s" % cfg["clip"])
  judge_state(state, out, after="build")      # freshly built layer
  for op in ops:
    apply_op(state, op, out)
  out.nontrivial = state.judged_after_violation > 0
  out.info["judged_states"] = state.judged
  return out


def run_case(case):
  return play(case["cfg"], case["ops"])


def machine(tier, sink):
  """Rule-based machine: rules append operations to the history; the history is
  executed against a fresh real layer (with the invariant evaluated after every
  step) in teardown, by the same function a replay uses."""

  class KFLMachine(RuleBasedStateMachine):

    def __init__(self):
      super(KFLMachine, self).__init__()
      self.cfg = None
      self.ops = []

    @initialize(cfg=kfl_config(tier))
    def build(self, cfg):
      self.cfg = cfg

    @rule(op=op_assign_kernel)
    def assign_kernel(self, op):
      self.ops.append(op)

    @rule(op=op_assign_scale)
    def assign_scale(self, op):
      self.ops.append(op)

    @rule(op=op_assign_bias)
    def assign_bias(self, op):
      self.ops.append(op)

    @rule(op=op_train_step)
    def train_step(self, op):
      self.ops.append(op)

    @rule()
    def apply_kernel_constraint(self):
      self.ops.append({"op": "apply_kernel_constraint"})

    @rule()
    def apply_scale_constraint(self):
      self.ops.append({"op": "apply_scale_constraint"})

    @rule()
    def finalize(self):
      self.ops.append({"op": "finalize"})

    @rule(k=op_assign_kernel, sc=op_assign_scale, kernel_first=st.booleans(),
          which=st.sampled_from(["both", "both", "kernel", "scale"]))
    def optimizer_step(self, k, sc, kernel_first, which):
      """What an optimizer does: update variables, then re-apply each
      variable's constraint (in variable order, which is not specified)."""
      if which in ("both", "kernel"):
        self.ops.append(k)
      if which in ("both", "scale"):
        self.ops.append(sc)
      names = ["apply_kernel_constraint", "apply_scale_constraint"]
      for n in (names if kernel_first else names[::-1]):
        self.ops.append({"op": n})

    @rule(kernel_first=st.booleans())
    def constrain_both(self, kernel_first):
      names = ["apply_kernel_constraint", "apply_scale_constraint"]
      for n in (names if kernel_first else names[::-1]):
        self.ops.append({"op": n})

    def teardown(self):
      if self.cfg is None:
        return
      case = {"cfg": self.cfg, "ops": self.ops}
      import props.c07 as me
      sink(case, safe_run(me, case))

  return KFLMachine
