"""C07 - KroneckerFactoredLattice is monotone and bounded after its constraints.

History property: a rule-based state machine assigns kernels and scales
(any sign pattern, zeros, flips), applies the kernel and scale constraints in
any order, runs optimizer steps, or calls finalize_constraints(); whenever both
constraints have been applied since the last assignment the layer function is
judged on the full half-integer grid (plus out-of-range points) against the
documented claims and against the float64 dense-kernel reference.  The
configuration also varies the documented spellings of `monotonicities` and
the documented input formats (tensor / list of tensors / extra dimensions).
"""
import itertools

import numpy as np
from hypothesis import strategies as st
from hypothesis.stateful import (RuleBasedStateMachine, initialize, precondition,
                                 rule)

from vlib import oracles as R
from vlib import strategies as S
from vlib.harness import Outcome, TOL_F, TOL_MONO_F, safe_run

ID = "C07"
TITLE = "KroneckerFactoredLattice after its constraints gives monotone, bounded outputs"
RULE = ("A Hypothesis RuleBasedStateMachine builds a KroneckerFactoredLattice "
        "(lattice_sizes 2-4 with dims 1-4, lattice_sizes 5-6 with dims 1-2, "
        "lattice_sizes 2 with dims 5-6; units 1-3, terms 1-4; monotonicity "
        "subsets incl. none, spelled as int list / 'increasing'-'none' "
        "strings / tuple / mixed / explicit all-zero list / omitted; bounds "
        "{none,min,max,both} drawn together with the monotonicity mode, incl. "
        "a bound equal to 0 and a 1e-3 wide range; clip_inputs on/off; input "
        "given as one tensor, as a list of dims tensors, with an extra "
        "dimension between batch and units, or both; with units > 1 every "
        "unit may receive the points in its own order; build() from a "
        "TensorShape or from the list of shapes; the layer is called eagerly "
        "or inside a tf.function) and runs a generated history "
        "of assign_kernel / assign_scale (signs incl. zeros and flips, scales "
        "1e-6..1e4, or a hand-shaped list of literal values repeated over "
        "the variable) / assign_bias (unbounded layers) / train_step (SGD or "
        "Adam on +-mean(y) or a squared loss) / apply_kernel_constraint / "
        "apply_scale_constraint / finalize; after every step at which both "
        "constraints have been applied since the last assignment the function "
        "is evaluated on the full half-integer grid and on out-of-range "
        "points. Non-trivial: a history with at least one judged state "
        "reached after an assignment that violated monotonicity or bounds on "
        "the grid before the constraints ran; distinct by SHA-1 of (config, "
        "operation list).")
NT_FLOOR = 0.3
BUDGET = {"quick": 80, "thorough": 1500}
STEP_COUNT = {"quick": 10, "thorough": 25}
TECHNIQUE = ("stateful property-based testing (Hypothesis RuleBasedStateMachine) "
             "with a float64 dense-kernel reference model and grid evaluation")
LEVEL_TEXT = ("Model-based exploration of update/constraint histories of the "
              "layer: generated sequences of variable assignments, optimizer "
              "steps and constraint applications in every order, over the "
              "documented spellings of the monotonicities and the documented "
              "input formats; in each clean state the real layer is evaluated "
              "on all half-integer grid points and compared with the "
              "documented claims (non-decreasing along increasing inputs, "
              "inside the bounds, equal to the dense reference, output of "
              "the documented shape).")
LEVEL_NOTE = ("Grid = all points with coordinates in {0, .5, 1, ...}; finer "
              "violations between grid points are impossible for a multilinear "
              "function (it is monotone along an axis iff it is on cell edges). "
              "Tolerances 1e-5 relative (monotone pairs, bounds) and 1e-4 "
              "(reference equality); when terms of opposite sign cancel, the "
              "float32 rounding floor 4*(dims+terms+2)*2^-23*sum_t|scale_t|*"
              "prod_d max|w| / terms replaces the relative tolerance of the "
              "monotone-pair and reference clauses if it is larger (class "
              "'tolerance:float32-rounding-floor-above-1e-5'). After "
              "finalize_constraints() the allowance for its float32 "
              "w + (p - w) update is the smaller of 8*dims*ulp32(max|kernel "
              "before|)*S and a bound computed entry by entry from the "
              "weights before and after, plus the same bound for the scale; "
              "the entry-by-entry bound stays in force for a variable until it "
              "is next assigned or passed through its own constraint. "
              "States reached through an optimizer step that leaves a weight "
              "beyond 1e6 or non-finite are not judged. Trusted: tf_keras "
              "applies variable constraints the way the machine does "
              "(variable.assign(constraint(variable))).")


# ---------------------------------------------------------------- config
# Spellings of `monotonicities` the layer documents: None, list or tuple of
# {'none', 'increasing', 0, 1}.  "ints" is the historical spelling (list of
# ints, argument omitted when nothing is monotone).
MONO_SPELLS = ["ints", "ints", "strings", "tuple", "mixed", "always-list"]
# Input formats the layer documents: one tensor (batch, ..., [units,] dims) or
# a list of dims tensors (batch, ..., [units,] 1).
XFMTS = ["tensor", "tensor", "list", "extra", "list+extra"]


CROSS_MODES = (
    [("none", "none")] + [("none", "min")] * 2 + [("none", "max")] * 2 +
    [("none", "both")] * 3 +
    [(m, b) for m in ("all", "some", "some")
     for b in ("none", "min", "max", "both")] + [("some", "both")])


def spell_monotonicities(mono, spell):
  """The `monotonicities` argument for a 0/1 vector in the given spelling
  (None = leave the argument out)."""
  mono = [int(m) for m in mono]
  if spell == "strings":
    return ["increasing" if m else "none" for m in mono]
  if spell == "tuple":
    return tuple(mono)
  if spell == "mixed":
    return [("increasing" if m else "none") if i % 2 == 0 else m
            for i, m in enumerate(mono)]
  if spell == "always-list":
    return list(mono)
  return list(mono) if any(mono) else None


@st.composite
def kfl_config(draw, tier="quick", wide=False):
  """KroneckerFactoredLattice configuration.  wide=False is the historical
  domain (other modules import it): lattice_sizes 2-4, dims 1-4.  wide=True
  (this module's machine, C10) adds lattice_sizes 5-6 (dims <= 2), dims 5-6
  (lattice_sizes 2), a 1e-3 wide output range, more one-sided bounds, and the
  keys mono_spell / xfmt / extra_k / unit_shuffle / build_list / call_mode."""
  shape_kind = draw(st.sampled_from(["std", "std", "std", "long", "deep"])
                    ) if wide else "std"
  if shape_kind == "long":
    size = draw(st.integers(5, 6))
    dims = draw(st.integers(1, 2))
  elif shape_kind == "deep":
    size = 2
    dims = draw(st.integers(5, 6))
  else:
    size = draw(st.integers(2, 4))
    dims = draw(st.integers(1, 4 if size < 4 else 3))
  if wide:
    # monotonicity mode and bound mode are drawn together so that every cross
    # (in particular no monotonicity with two-sided / one-sided bounds) is
    # constructed often
    mm, bm = draw(st.sampled_from(CROSS_MODES))
  else:
    mm = draw(st.sampled_from(["none", "all", "some", "some"]))
  mono = [0 if mm == "none" else 1 if mm == "all" else draw(st.integers(0, 1))
          for _ in range(dims)]
  if not wide:
    bm = draw(st.sampled_from(["none", "min", "max", "both", "both"]))
    if mm == "none" and bm == "none" and draw(st.integers(0, 3)) > 0:
      bm = draw(st.sampled_from(["min", "max", "both"]))
  lo = S.f32(draw(st.sampled_from([-10.0, -1.0, 0.0, 0.5, 100.0])))
  width = S.f32(draw(st.sampled_from([0.5, 1.0, 3.0, 1000.0])))
  if wide and bm == "both" and draw(st.integers(0, 2)) == 0:
    # a narrow range: the scale clip is 5e-4 (not a power of two)
    lo = S.f32(draw(st.sampled_from([-1.0, -0.5, 0.0, 0.5])))
    width = S.f32(1e-3)
  cfg = {"size": size, "dims": dims, "units": draw(st.integers(1, 3)),
         "terms": draw(st.integers(1, 4)), "mono": mono,
         "omin": lo if bm in ("min", "both") else None,
         "omax": S.f32(lo + width) if bm in ("max", "both") else None,
         "clip": draw(st.booleans()), "init_seed": draw(st.integers(0, 999))}
  if wide:
    cfg["mono_spell"] = draw(st.sampled_from(MONO_SPELLS))
    cfg["xfmt"] = draw(st.sampled_from(XFMTS))
    cfg["extra_k"] = draw(st.integers(2, 3))
    cfg["unit_shuffle"] = draw(st.booleans())
    cfg["build_list"] = draw(st.booleans())
    # the layer is called eagerly or inside a tf.function (graph mode)
    cfg["call_mode"] = draw(st.sampled_from(["eager", "eager", "eager",
                                             "function"]))
  return cfg


KERNEL_KINDS = ["normal", "normal", "uniform", "ints", "sorted", "antisorted",
                "constant", "spike", "zeros", "ties"]
# Hand-shaped weights: a short list of literal float32 values that is repeated
# cyclically to fill the variable (its shape is only known once the layer is
# built), so zeros, exact ties, tiny and large entries sit at chosen places.
_cycle_elem = st.one_of(
    S.f32_floats(-1e4, 1e4), S.f32_floats(-2, 2),
    st.sampled_from([0.0, 1.0, -1.0, 0.5, 1e-6, -1e-6, 1e-3, 1e4, -1e4]))
_cycle_desc = st.fixed_dictionaries({
    "kind": st.just("cycle"),
    "values": st.lists(_cycle_elem, min_size=1, max_size=12).map(S.f32)})
op_assign_kernel = st.fixed_dictionaries({
    "op": st.just("assign_kernel"),
    "desc": st.one_of(*([S.array_desc(
        kinds=KERNEL_KINDS,
        scales=[1e-6, 1e-3, 0.3, 1.0, 1.0, 3.0, 30.0, 1e3, 1e4])] * 3 +
                        [_cycle_desc]))})
op_assign_scale = st.fixed_dictionaries({
    "op": st.just("assign_scale"),
    "desc": st.one_of(*([S.array_desc(
        kinds=["normal", "ints", "ties", "zeros", "uniform"],
        scales=[1e-6, 1e-3, 1.0, 1.0, 10.0, 1e3, 1e4])] * 3 +
                        [_cycle_desc]))})
op_train_step = st.fixed_dictionaries({
    "op": st.just("train_step"), "lr": st.sampled_from([0.01, 1.0, 30.0]),
    "sign": st.sampled_from([-1.0, 1.0]), "seed": st.integers(0, 10**6),
    "opt": st.sampled_from(["sgd", "sgd", "adam"]),
    "loss": st.sampled_from(["mean", "mean", "square"])})
op_assign_bias = st.fixed_dictionaries({
    "op": st.just("assign_bias"),
    "desc": S.array_desc(kinds=["normal", "ints"], scales=[1.0, 100.0])})


def _materialize(desc, n):
  """float32 vector of n entries from an array descriptor."""
  if desc["kind"] == "cycle":
    return np.resize(np.asarray(desc["values"], np.float32), n)
  return S.materialize(desc, (n, 1))[:, 0]


def _desc_label(what, desc):
  if desc["kind"] == "cycle":
    return what + ":hand-shaped"
  sc = desc.get("scale")
  if sc is not None and (sc <= 1e-6 or sc >= 1e4):
    return what + ":scale=%g" % sc
  return None


# ---------------------------------------------------------------- model
class OutputShape(Exception):
  """The layer returned an output of an undocumented shape."""


def build_kfl(layer, cfg):
  """Builds the layer for the input format of the configuration."""
  import tensorflow as tf
  d, u = cfg["dims"], cfg["units"]
  xfmt = cfg.get("xfmt", "tensor")
  lead = (None,) + ((cfg.get("extra_k", 2),) if "extra" in xfmt else ())
  lead = lead + ((u,) if u > 1 else ())
  if "list" in xfmt and cfg.get("build_list"):
    layer.build([tf.TensorShape(lead + (1,)) for _ in range(d)])
  else:
    layer.build(tf.TensorShape(lead + (d,)))


def format_inputs(cfg, pts):
  """Library input for the (P, dims) points in the configured input format,
  and a function that turns the layer output back into (P, units).

  units > 1 with unit_shuffle: unit v receives the points in its own order
  (each unit still sees every point once); 'extra': an additional dimension
  of extra_k between batch and units (the last row is repeated to fill the
  batch); 'list': one (..., 1) tensor per input dimension."""
  import tensorflow as tf
  xfmt = cfg.get("xfmt", "tensor")
  u, d, p = cfg["units"], cfg["dims"], len(pts)
  pts = np.asarray(pts, np.float32)
  perms = None
  if u == 1:
    x = pts
  elif cfg.get("unit_shuffle"):
    rs = np.random.RandomState(cfg["init_seed"] * 7919 + p)
    perms = [rs.permutation(p) for _ in range(u)]
    x = np.stack([pts[q] for q in perms], axis=1)
  else:
    x = np.repeat(pts[:, None, :], u, axis=1)
  if "extra" in xfmt:
    k = cfg.get("extra_k", 2)
    pad = (-p) % k
    if pad:
      x = np.concatenate([x, np.repeat(x[-1:], pad, axis=0)], axis=0)
    x = x.reshape((len(x) // k, k) + x.shape[1:])
  want = x.shape[:-1] + ((1,) if u == 1 else ())
  if "list" in xfmt:
    inp = [tf.constant(x[..., i:i + 1]) for i in range(d)]
  else:
    inp = tf.constant(x)

  def restore(y):
    y = np.asarray(y, np.float64)
    if y.shape != want:
      raise OutputShape("layer output has shape %s for input format %s of "
                        "shape %s; documented %s" % (
                            y.shape, xfmt, x.shape, want))
    y = y.reshape(-1, u)[:p]
    if perms is not None:
      z = np.empty_like(y)
      for v, q in enumerate(perms):
        z[q, v] = y[:, v]
      y = z
    return y

  return inp, restore


class State(object):

  def __init__(self, cfg):
    import tensorflow as tf
    import tensorflow_lattice as tfl
    self.tf = tf
    self.cfg = cfg
    tf.random.set_seed(cfg["init_seed"])
    kw = dict(lattice_sizes=cfg["size"], units=cfg["units"],
              num_terms=cfg["terms"], output_min=cfg["omin"],
              output_max=cfg["omax"], clip_inputs=cfg["clip"])
    monotonicities = spell_monotonicities(cfg["mono"],
                                          cfg.get("mono_spell", "ints"))
    if monotonicities is not None:
      kw["monotonicities"] = monotonicities
    self.layer = tfl.layers.KroneckerFactoredLattice(**kw)
    d = cfg["dims"]
    self.xfmt = cfg.get("xfmt", "tensor")
    build_kfl(self.layer, cfg)
    self.call_mode = cfg.get("call_mode", "eager")
    self._fn = tf.function(lambda x: self.layer(x), reduce_retracing=True)
    self.dirty_kernel = False
    self.dirty_scale = False
    self.violated_before = False
    self.judged = 0
    self.judged_after_violation = 0
    pts = list(itertools.product(
        *[np.arange(0, cfg["size"] - 0.5, 0.5)] * d))
    self.grid = np.array(pts, np.float32)            # (P, d), lexicographic
    self.gshape = [2 * cfg["size"] - 1] * d
    rs = np.random.RandomState(cfg["init_seed"])
    self.outside = (rs.uniform(-2, cfg["size"] + 1, size=(24, d))
                    ).astype(np.float32)

  def format_inputs(self, pts):
    return format_inputs(self.cfg, pts)

  def evaluate(self, pts):
    inp, restore = self.format_inputs(pts)
    y = self._fn(inp) if self.call_mode == "function" else self.layer(inp)
    return restore(y.numpy())

  def grid_measures(self):
    """(monotonicity violation, bound violation, scale) on the grid."""
    cfg = self.cfg
    y = self.evaluate(self.grid)                       # (P, units)
    sc = max(1.0, float(np.max(np.abs(y))))
    yg = y.reshape(self.gshape + [cfg["units"]])
    mono_v = 0.0
    for dd, m in enumerate(cfg["mono"]):
      if m:
        mono_v = max(mono_v, float(np.max(-np.diff(yg, axis=dd))))
    b = 0.0
    if cfg["omin"] is not None:
      b = max(b, float(cfg["omin"] - y.min()))
    if cfg["omax"] is not None:
      b = max(b, float(y.max() - cfg["omax"]))
    return mono_v, b, sc, y


def apply_op(state, op, out):
  tf, layer, cfg = state.tf, state.layer, state.cfg
  name = op["op"]
  if name == "assign_kernel":
    shape = tuple(layer.kernel.shape)
    k = _materialize(op["desc"], int(np.prod(shape))).reshape(shape)
    layer.kernel.assign(k)
    state.dirty_kernel = state.dirty_scale = True
    state.fin_ek = None
    out.label(*[l for l in [_desc_label("kernel", op["desc"])] if l])
  elif name == "assign_scale":
    shape = tuple(layer.scale.shape)
    s = _materialize(op["desc"], int(np.prod(shape))).reshape(shape)
    layer.scale.assign(s)
    state.dirty_kernel = state.dirty_scale = True
    state.fin_es = None
    out.label(*[l for l in [_desc_label("scale", op["desc"])] if l])
  elif name == "assign_bias":
    # any TRAINABLE variable may take any value during training; the bias of a
    # bounded layer is documented as fixed (non-trainable) and is left alone.
    if any(v is layer.bias for v in layer.trainable_variables):
      b = S.materialize(op["desc"], (cfg["units"], 1))[:, 0]
      layer.bias.assign(b)
  elif name == "train_step":
    # a real optimizer step: Keras updates every trainable variable and then
    # re-applies each variable's constraint.
    import tf_keras as keras
    rs = np.random.RandomState(op["seed"])
    x = rs.uniform(-0.5, cfg["size"] - 0.5, size=(8, cfg["dims"])).astype(
        np.float32)
    inp, _ = state.format_inputs(x)
    kind, loss_kind = op.get("opt", "sgd"), op.get("loss", "mean")
    if kind == "adam":
      opt = keras.optimizers.Adam(learning_rate=op["lr"])
    else:
      opt = keras.optimizers.SGD(learning_rate=op["lr"])
    with tf.GradientTape() as tape:
      y = layer(inp)
      if loss_kind == "square":
        loss = tf.reduce_mean((y - op["sign"] * 5.0) ** 2)
      else:
        loss = op["sign"] * tf.reduce_mean(y) + 0.1 * tf.reduce_mean(
            (y - op["sign"] * -50.0) ** 2) * 0.0
    tv = layer.trainable_variables
    grads = tape.gradient(loss, tv)
    opt.apply_gradients([(g, v) for g, v in zip(grads, tv) if g is not None])
    state.dirty_kernel = state.dirty_scale = False
    state.violated_before = True
    state.fin_ek = state.fin_es = None
    out.label("train:%s/%s" % (kind, loss_kind))
  elif name == "apply_kernel_constraint":
    if layer.kernel.constraint is not None:
      layer.kernel.assign(layer.kernel.constraint(layer.kernel))
      state.fin_ek = None
    state.dirty_kernel = False
  elif name == "apply_scale_constraint":
    if layer.scale.constraint is not None:
      layer.scale.assign(layer.scale.constraint(layer.scale))
      state.fin_es = None
    state.dirty_scale = False
  elif name == "finalize":
    # finalize_constraints() computes kernel + (projected - kernel) and
    # scale + (clipped - scale) in float32: the rounding error of these two
    # operations is bounded from the weights before and after (see
    # _finalize_slack).
    state.finalize_kmax = float(np.max(np.abs(layer.kernel.numpy())))
    k0, s0 = layer.kernel.numpy().copy(), layer.scale.numpy().copy()
    layer.finalize_constraints()
    # the rounding of each variable stays in it until the variable is next
    # assigned or passed through its own constraint
    shp = (cfg["size"], cfg["units"], cfg["dims"], cfg["terms"])
    state.fin_ek = _assign_add_error(k0, layer.kernel.numpy()).reshape(
        shp).max(axis=0)                                         # (u, d, t)
    state.fin_es = _assign_add_error(s0, layer.scale.numpy())   # (u, t)
    state.dirty_kernel = state.dirty_scale = False
  else:
    raise ValueError(name)
  out.label("op:" + name)
  if (name == "train_step" or getattr(state, "overflowed", False)) and not all(
      np.all(np.isfinite(v.numpy())) and np.max(np.abs(v.numpy())) <= 1e6
      for v in layer.variables):
    # weights beyond 1e6 (or non-finite) after an optimizer step: products over
    # dims overflow float32; the statement is about finite arithmetic, so the
    # state is not judged - neither now nor after later operations (finalize,
    # constraints) as long as the weights stay beyond 1e6.
    state.dirty_kernel = state.dirty_scale = True
    state.overflowed = True
    out.label("not-judged:weights-beyond-1e6")
    return
  if name.startswith("assign"):
    mv, bv, sc, _ = state.grid_measures()
    if mv > 1e-3 * sc or bv > 1e-3 * sc:
      state.violated_before = True
    return
  if state.dirty_kernel or state.dirty_scale:
    return
  judge_state(state, out, after=name)


def _assign_add_error(a0, a1):
  """Elementwise bound on |a1 - p| where a1 = fl32(a0 + fl32(p - a0)) is what
  variable.assign_add(p - variable) stores instead of the float32 value p:
  one rounding of the difference (at most ulp32(|p - a0|)) and one of the sum
  (at most ulp32(|a1|)); computed from the values before and after only."""
  a0 = np.asarray(a0, np.float32)
  a1 = np.asarray(a1, np.float32)
  sp1 = np.spacing(np.abs(a1)).astype(np.float64)
  diff = (np.abs(a1.astype(np.float64) - a0.astype(np.float64)) + sp1).astype(
      np.float32)
  return np.spacing(diff).astype(np.float64) + sp1


def _finalize_slack(state, after, sc):
  """Extra absolute tolerance for weights that still carry the float32
  rounding of finalize_constraints().

  finalize stores fl32(w + fl32(p - w)) instead of the projected p, for the
  kernel and for the scale; the error stays in a variable until it is next
  assigned or passed through its own constraint.  With e = _assign_add_error
  per entry (0 for a variable that has been rewritten since), M[u,d,t] >=
  max_i |p| and |every 1-d factor PLF(x; w)| <= max_i |w|, the function moves
  by at most
      sum_t [(|scale|+e_s) * (prod_d (M+e) - prod_d M) + e_s * prod_d (M+e)] / T
  per unit, and a monotone pair by at most twice that.  Directly after
  finalize the historical bound 8 * dims * ulp32(max|kernel before|) * sc
  (plus the scale term, which it did not have) caps it: the smaller of the two
  is used."""
  cfg, layer = state.cfg, state.layer
  ek = getattr(state, "fin_ek", None)
  es = getattr(state, "fin_es", None)
  if ek is None and es is None:
    return 0.0
  shp = (cfg["size"], cfg["units"], cfg["dims"], cfg["terms"])
  k1 = layer.kernel.numpy().astype(np.float64)
  s1 = layer.scale.numpy().astype(np.float64)
  if not (np.all(np.isfinite(k1)) and np.all(np.isfinite(s1)) and
          (ek is None or np.all(np.isfinite(ek))) and
          (es is None or np.all(np.isfinite(es)))):
    return 0.0                       # non-finite states fail the finite clause
  ek = np.zeros(shp[1:]) if ek is None else ek
  es = np.zeros((cfg["units"], cfg["terms"])) if es is None else es
  m = np.abs(k1).reshape(shp).max(axis=0) + ek                  # (u, d, t)
  hi = np.prod(m + ek, axis=1)                                  # (u, t)
  lo = np.prod(m, axis=1)
  scale_part = 2.0 * float(np.max(np.sum(es * hi, axis=1))) / cfg["terms"]
  new = 2.0 * float(np.max(np.sum(
      (np.abs(s1) + es) * (hi - lo) + es * hi, axis=1))) / cfg["terms"]
  if after != "finalize":
    state.finalize_slack_info = {"carried-over": new}
    return new
  old = 8.0 * cfg["dims"] * float(np.spacing(np.float32(
      getattr(state, "finalize_kmax", 1.0)))) * sc
  state.finalize_slack_info = {"exact": new, "historical": old + scale_part}
  return min(new, old + scale_part)


def _rounding_floor(state):
  """Per unit: float32 rounding floor of the layer function.

  The layer sums num_terms products scale_t * prod_d PLF_d in float32; when
  terms of opposite sign cancel, the rounding error is relative to the size
  of the TERMS, not of the result.  Forward error analysis (<= 4 roundings
  per 1-d factor, dims - 1 multiplications, num_terms additions, bias) gives
  |error| <= 2 * (dims + num_terms + 2) * eps32 * sum_t |scale_t| *
  prod_d max_i |w[i, d, t]| / num_terms per evaluation (eps32 = 2**-23), twice
  that for a difference of two evaluations.  The relative tolerances
  (1e-5 * S for monotone pairs, 1e-4 * S for the reference) are used unless
  this floor is larger (counted in the class
  'tolerance:float32-rounding-floor-above-1e-5')."""
  cfg, layer = state.cfg, state.layer
  shp = (cfg["size"], cfg["units"], cfg["dims"], cfg["terms"])
  m = np.abs(layer.kernel.numpy().astype(np.float64)).reshape(shp).max(axis=0)
  termsum = np.sum(np.abs(layer.scale.numpy().astype(np.float64)) *
                   np.prod(m, axis=1), axis=1) / cfg["terms"]       # (units,)
  eps32 = float(np.finfo(np.float32).eps)
  return 4.0 * (cfg["dims"] + cfg["terms"] + 2) * eps32 * termsum


def judge_state(state, out, after):
  cfg = state.cfg
  state.judged += 1
  if state.violated_before:
    state.judged_after_violation += 1
  sig = dict(mono=bool(any(cfg["mono"])), bounds={
      (True, True): "none", (False, True): "min", (True, False): "max",
      (False, False): "both"}[(cfg["omin"] is None, cfg["omax"] is None)])
  mv, bv, sc, y = state.grid_measures()
  out.checks += 3
  if not np.all(np.isfinite(y)):
    out.violate("non-finite output after %s" % after, kind="finite", **sig)
    return
  slack = _finalize_slack(state, after, sc)
  cond_u = _rounding_floor(state)
  cond = float(np.max(cond_u))
  if cond > TOL_MONO_F * sc:
    out.label("tolerance:float32-rounding-floor-above-1e-5")
  if mv > max(TOL_MONO_F * sc, cond) + slack:
    out.violate("output decreases by %.3g along an increasing input after %s" %
                (mv, after), kind="monotonicity", **sig)
  if bv > 1e-5 * max(1.0, abs(cfg["omin"] or 0), abs(cfg["omax"] or 0)) + slack:
    out.violate("in-range output outside the bounds by %.3g after %s" %
                (bv, after), kind="bounds", **sig)
  # dense float64 reference
  layer = state.layer
  dense = R.kfl_dense_kernel(layer.kernel.numpy(), layer.scale.numpy(),
                             layer.bias.numpy(), cfg["size"], cfg["dims"],
                             cfg["units"], cfg["terms"])
  sizes = [cfg["size"]] * cfg["dims"]
  sub = state.grid[::max(1, len(state.grid) // 64)]
  ysub = state.evaluate(sub)
  for u in range(cfg["units"]):
    ref = R.interp_hypercube(sub.astype(np.float64), dense[:, u], sizes)
    out.checks += 1
    lim = TOL_F * max(1.0, float(np.max(np.abs(ref))),
                      float(np.max(np.abs(dense[:, u]))))
    if np.max(np.abs(ysub[:, u] - ref)) > max(lim, float(cond_u[u])):
      out.violate("layer output differs from the dense-kernel reference by "
                  "%.3g after %s" % (np.max(np.abs(ysub[:, u] - ref)), after),
                  kind="reference", **sig)
      break
  if cfg["clip"]:
    yo = state.evaluate(state.outside)
    out.checks += 2
    bo = 0.0
    if cfg["omin"] is not None:
      bo = max(bo, float(cfg["omin"] - yo.min()))
    if cfg["omax"] is not None:
      bo = max(bo, float(yo.max() - cfg["omax"]))
    if bo > 1e-5 * max(1.0, abs(cfg["omin"] or 0), abs(cfg["omax"] or 0)) + slack:
      out.violate("clipped out-of-range output outside the bounds by %.3g "
                  "after %s" % (bo, after), kind="bounds-outside", **sig)
    # monotone pairs for out-of-range points: move one increasing coordinate up
    for dd, m in enumerate(cfg["mono"]):
      if m:
        x2 = state.outside.copy()
        x2[:, dd] += 0.75
        y2 = state.evaluate(x2)
        sc2 = max(1.0, float(np.max(np.abs(yo))), float(np.max(np.abs(y2))))
        if np.max(yo - y2) > max(TOL_MONO_F * sc2, cond) + slack:
          out.violate("output decreases along increasing input %d for "
                      "out-of-range points after %s" % (dd, after),
                      kind="monotonicity-outside", **sig)
          break


def play(cfg, ops):
  """Replays a history; returns the Outcome."""
  out = Outcome()
  state = State(cfg)
  bl = ("none" if cfg["omin"] is None and cfg["omax"] is None else
        "min" if cfg["omax"] is None else "max" if cfg["omin"] is None else
        "both")
  ml = "none" if not any(cfg["mono"]) else "some"
  out.label("mono:%s" % ml, "bounds:%s" % bl,
            "units:%d" % cfg["units"], "terms:%d" % cfg["terms"],
            "dims:%d" % cfg["dims"], "clip:%s" % cfg["clip"],
            "size:%d" % cfg["size"], "cross:bounds=%s,mono=%s" % (bl, ml),
            "mono-spelling:" + cfg.get("mono_spell", "ints"),
            "input:" + state.xfmt, "call:" + state.call_mode)
  if bl in ("min", "max") and cfg["units"] > 1 and cfg["terms"] > 1:
    out.label("cross:one-sided,units>1,terms>1,mono=%s" % ml)
  if cfg["units"] > 1 and cfg.get("unit_shuffle"):
    out.label("input:units-get-different-points")
  if "list" in state.xfmt and cfg.get("build_list"):
    out.label("input:built-from-list-shape")
  if bl == "both" and cfg["omax"] - cfg["omin"] < 0.01:
    out.label("bounds:width=1e-3")
  if 0.0 in (cfg["omin"], cfg["omax"]):
    out.label("bounds:a-bound-is-0")
  sig = dict(mono=bool(any(cfg["mono"])), bounds=bl)
  try:
    judge_state(state, out, after="build")      # freshly built layer
    for op in ops:
      apply_op(state, op, out)
  except OutputShape as e:
    out.violate(str(e), kind="output-shape", **sig)
  out.nontrivial = state.judged_after_violation > 0
  out.info["judged_states"] = state.judged
  if getattr(state, "finalize_slack_info", None):
    out.info["finalize_slack(last)"] = state.finalize_slack_info
  return out


def run_case(case):
  return play(case["cfg"], case["ops"])


def machine(tier, sink):
  """Rule-based machine: rules append operations to the history; the history is
  executed against a fresh real layer (with the invariant evaluated after every
  step) in teardown, by the same function a replay uses."""

  class KFLMachine(RuleBasedStateMachine):

    def __init__(self):
      super(KFLMachine, self).__init__()
      self.cfg = None
      self.ops = []

    @initialize(cfg=kfl_config(tier, wide=True))
    def build(self, cfg):
      self.cfg = cfg

    @rule(op=op_assign_kernel)
    def assign_kernel(self, op):
      self.ops.append(op)

    @rule(op=op_assign_scale)
    def assign_scale(self, op):
      self.ops.append(op)

    @rule(op=op_assign_bias)
    def assign_bias(self, op):
      self.ops.append(op)

    @rule(op=op_train_step)
    def train_step(self, op):
      self.ops.append(op)

    @rule()
    def apply_kernel_constraint(self):
      self.ops.append({"op": "apply_kernel_constraint"})

    @rule()
    def apply_scale_constraint(self):
      self.ops.append({"op": "apply_scale_constraint"})

    @rule()
    def finalize(self):
      self.ops.append({"op": "finalize"})

    @rule(k=op_assign_kernel, sc=op_assign_scale, kernel_first=st.booleans(),
          which=st.sampled_from(["both", "both", "kernel", "scale"]))
    def optimizer_step(self, k, sc, kernel_first, which):
      """What an optimizer does: update variables, then re-apply each
      variable's constraint (in variable order, which is not specified)."""
      if which in ("both", "kernel"):
        self.ops.append(k)
      if which in ("both", "scale"):
        self.ops.append(sc)
      names = ["apply_kernel_constraint", "apply_scale_constraint"]
      for n in (names if kernel_first else names[::-1]):
        self.ops.append({"op": n})

    @rule(kernel_first=st.booleans())
    def constrain_both(self, kernel_first):
      names = ["apply_kernel_constraint", "apply_scale_constraint"]
      for n in (names if kernel_first else names[::-1]):
        self.ops.append({"op": n})

    def teardown(self):
      if self.cfg is None:
        return
      case = {"cfg": self.cfg, "ops": self.ops}
      import props.c07 as me
      sink(case, safe_run(me, case))

  return KFLMachine
