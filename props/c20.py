"""C20 - Linear layer computes the clipped affine function its weights describe."""
import numpy as np
from hypothesis import strategies as st

from vlib import strategies as S
from vlib.harness import Outcome, TOL_MONO_F, TOL_W, scale_of

ID = "C20"
RULE = ("Hypothesis draws a valid Linear configuration (1-8 inputs, 1-3 units, "
        "bounded-input subsets, bias on/off, dominances, norm), a kernel/bias "
        "from the array mixture and a batch of points inside, on and outside "
        "the input bounds; the layer output is compared with a float64 "
        "reference sum_i k[i,u]*clip(x_i)+b_u, and function-level consequences "
        "are checked on weights returned by the layer's own constraint. "
        "Non-trivial: kernel not all zero and at least one input coordinate "
        "non-zero; distinct by SHA-1 of the case.")
NT_FLOOR = 0.6
BUDGET = {"quick": 500, "thorough": 6000}
ASSUMPTIONS = ["consequence clauses are judged only on weights that satisfy "
               "the constraints in float64 (C06 judges the projection itself)"]


@st.composite
def _case(draw, tier):
  cfg = draw(S.linear_config(max_dims=8 if tier == "quick" else 12))
  batch = draw(st.integers(1, 5))
  case = {
      "cfg": cfg,
      "kernel": draw(S.array_desc(shape=(cfg["dims"], cfg["units"]))),
      "bias": draw(S.array_desc(kinds=["normal", "zeros", "ints"],
                                shape=(cfg["units"], 1))),
      "x": draw(S.array_desc(kinds=["normal", "uniform", "ints", "ties"],
                             scales=[1e-3, 1.0, 1.0, 10.0, 1e3, 1e6])),
      "x_mode": draw(st.sampled_from(["free", "on_bounds", "outside"])),
      "batch": batch,
  }
  return case


def strategy(tier):
  return _case(tier)


def _inputs(case):
  cfg = case["cfg"]
  d, u, b = cfg["dims"], cfg["units"], case["batch"]
  x = S.materialize(case["x"], (b * u * d, 1)).reshape(b, u, d).astype(
      np.float64)
  lo = np.array([-np.inf if v is None else v for v in cfg["input_min"]])
  hi = np.array([np.inf if v is None else v for v in cfg["input_max"]])
  if case["x_mode"] == "on_bounds":
    pick = (np.arange(b * u * d).reshape(b, u, d) % 3)
    x = np.where((pick == 0) & np.isfinite(lo), lo, x)
    x = np.where((pick == 1) & np.isfinite(hi), hi, x)
  elif case["x_mode"] == "outside":
    pick = (np.arange(b * u * d).reshape(b, u, d) % 2)
    x = np.where((pick == 0) & np.isfinite(lo), lo - 1 - np.abs(x), x)
    x = np.where((pick == 1) & np.isfinite(hi), hi + 1 + np.abs(x), x)
  x = x.astype(np.float32)
  if u == 1:
    x = x[:, 0, :]
  return x, lo, hi


def _ref(x, k, bias, lo, hi, use_bias):
  """float64 reference; x (b,u,d) or (b,d); k (d,u)."""
  x = np.asarray(x, np.float64)
  if x.ndim == 2:
    x = x[:, None, :]
  xc = np.minimum(np.maximum(x, lo), hi)
  terms = xc * k.T[None, :, :].astype(np.float64)      # (b,u,d)
  y = terms.sum(-1)
  mag = np.abs(terms).sum(-1)
  if use_bias:
    y = y + bias[None, :]
    mag = mag + np.abs(bias)[None, :]
  return y, mag


def _build(cfg, k, bias):
  import tensorflow as tf
  import tensorflow_lattice as tfl
  kw = S.linear_kwargs(cfg)
  layer = tfl.layers.Linear(num_input_dims=cfg["dims"], units=cfg["units"],
                            use_bias=cfg["use_bias"], **kw)
  shape = (None, cfg["dims"]) if cfg["units"] == 1 else (
      None, cfg["units"], cfg["dims"])
  layer.build(shape)
  layer.kernel.assign(k)
  if cfg["use_bias"]:
    layer.bias.assign(bias[0] if cfg["units"] == 1 else bias)
  return layer, tf


def _satisfies(cfg, w, lo, hi):
  """float64: do weights w (d,u) satisfy every configured constraint?"""
  s = scale_of(w)
  tol = 1e-6 * s
  m = np.array(cfg["mono"], np.float64)[:, None]
  if np.any(w * m < 0):
    return False
  for a, b in cfg["mono_dom"]:
    if np.any(w[a] - w[b] < 0):
      return False
  for a, b in cfg["range_dom"]:
    ra, rb = hi[a] - lo[a], hi[b] - lo[b]
    if np.any(np.abs(w[a]) * ra - np.abs(w[b]) * rb < -tol * max(1, ra, rb)):
      return False
  return True


def run_case(case):
  out = Outcome()
  cfg = case["cfg"]
  d, u = cfg["dims"], cfg["units"]
  k = S.materialize(case["kernel"], (d, u))
  bias = S.materialize(case["bias"], (u, 1))[:, 0]
  x, lo, hi = _inputs(case)
  layer, tf = _build(cfg, k, bias)
  y = layer(tf.constant(x)).numpy().astype(np.float64)
  yref, mag = _ref(x, k, bias.astype(np.float64), lo, hi, cfg["use_bias"])
  out.label("units>1" if u > 1 else "units=1",
            "bias" if cfg["use_bias"] else "nobias", "x:" + case["x_mode"],
            "bounds:%s" % ("none" if not np.isfinite(lo).any() and
                           not np.isfinite(hi).any() else "some"))
  out.nontrivial = bool(np.any(k != 0) and np.any(x != 0))
  out.checks += 1
  if y.shape != (case["batch"], u):
    out.violate("output shape %s != %s" % (y.shape, (case["batch"], u)),
                kind="shape")
    return out
  err = np.abs(y - yref)
  tol = 1e-5 * (mag + 1.0)
  out.info["max_err_over_tol"] = float(np.max(err / tol))
  if not np.all(np.isfinite(y)) or np.any(err > tol):
    i = np.unravel_index(np.argmax(err / tol), err.shape)
    out.violate("Linear output %r differs from clipped affine reference %r "
                "(example %d unit %d)" % (float(y[i]), float(yref[i]), i[0],
                                           i[1]), kind="value")
    return out

  # ---- consequences on constraint-satisfying weights
  if layer.kernel.constraint is None:
    return out
  w32 = layer.kernel.constraint(tf.constant(k)).numpy()
  w = w32.astype(np.float64)
  if not np.all(np.isfinite(w)) or not _satisfies(cfg, w, lo, hi):
    out.label("cons:weights-not-feasible(C06)")
    return out
  layer.kernel.assign(w32)
  out.label("cons:checked")
  f = lambda z: layer(tf.constant(z.astype(np.float32))).numpy().astype(
      np.float64)
  x3 = x if x.ndim == 3 else x[:, None, :]
  pack = (lambda z: z) if u > 1 else (lambda z: z[:, 0, :])
  base = f(pack(x3))
  fs = max(1.0, float(np.max(np.abs(base))))
  mtol = TOL_MONO_F * fs
  for i in range(d):
    if cfg["mono"][i] == 0:
      continue
    for delta in (0.5, 7.0):
      x2 = x3.astype(np.float64).copy()
      x2[:, :, i] += delta * max(1.0, float(np.max(np.abs(x3[:, :, i]))))
      if not np.all(x2.astype(np.float32)[:, :, i] >= x3[:, :, i]):
        continue
      y2 = f(pack(x2))
      y1 = f(pack(x3))
      out.checks += 1
      fs2 = max(fs, float(np.max(np.abs(y2))))
      bad = (y2 - y1) * cfg["mono"][i] < -TOL_MONO_F * fs2
      if np.any(bad):
        out.violate("output not monotone (direction %d) in input %d" %
                    (cfg["mono"][i], i), kind="fn-monotonicity")
        return out
  # monotonic dominance: per unit step (inside bounds, no clipping)
  for a, b in cfg["mono_dom"]:
    x0 = np.zeros_like(x3, dtype=np.float64)
    ok = True
    for dim in (a, b):
      l, h = lo[dim], hi[dim]
      if np.isfinite(l) and np.isfinite(h):
        if h - l < 1:
          ok = False
        x0[:, :, dim] = l
      elif np.isfinite(l):
        x0[:, :, dim] = l
      elif np.isfinite(h):
        x0[:, :, dim] = h - 1
    if not ok:
      continue
    xa, xb = x0.copy(), x0.copy()
    xa[:, :, a] += 1
    xb[:, :, b] += 1
    fa, fb, f0 = f(pack(xa)), f(pack(xb)), f(pack(x0))
    out.checks += 1
    out.label("cons:mono-dominance")
    sc = max(1.0, np.max(np.abs(fa)), np.max(np.abs(fb)), np.max(np.abs(f0)))
    if np.any((fa - f0) - (fb - f0) < -TOL_W * sc):
      out.violate("unit step along dominant input %d changes output less than "
                  "along weak input %d" % (a, b), kind="fn-mono-dominance")
      return out
  for a, b in cfg["range_dom"]:
    x0 = np.zeros_like(x3, dtype=np.float64)
    for dim in (a, b):
      x0[:, :, dim] = lo[dim]
    xa, xb = x0.copy(), x0.copy()
    xa[:, :, a] = hi[a] + 3.0   # clipped to input_max
    xb[:, :, b] = hi[b] + 3.0
    fa, fb, f0 = f(pack(xa)), f(pack(xb)), f(pack(x0))
    out.checks += 1
    out.label("cons:range-dominance")
    sc = max(1.0, np.max(np.abs(fa)), np.max(np.abs(fb)), np.max(np.abs(f0)))
    if np.any(np.abs(fa - f0) - np.abs(fb - f0) < -TOL_W * 10 * sc):
      out.violate("full-range change along dominant input %d smaller than "
                  "along weak input %d" % (a, b), kind="fn-range-dominance")
      return out
  if cfg["norm"] == 1 and all(m == 1 for m in cfg["mono"]):
    nrm = np.abs(w).sum(0)
    if np.all(np.abs(nrm - 1) < 1e-4):
      if cfg["use_bias"]:
        layer.bias.assign(np.zeros_like(bias)[0] if u == 1 else
                          np.zeros_like(bias))
      xin = x3.astype(np.float64)
      xc = np.minimum(np.maximum(xin, lo), hi)
      ya = f(pack(x3))
      out.checks += 1
      sc = scale_of(xc)
      if np.any(ya < xc.min(-1) - 1e-4 * sc) or np.any(
          ya > xc.max(-1) + 1e-4 * sc):
        out.violate("normalised all-increasing layer is not a weighted average "
                    "of its (clipped) inputs", kind="fn-weighted-average")
        return out
      out.label("cons:weighted-average")
  return out

TITLE = "Linear layer computes the clipped affine function its weights describe"
TECHNIQUE = ("property-based testing (Hypothesis): differential against a "
             "float64 reference formula + metamorphic input pairs")
LEVEL_TEXT = ("Generated-input exploration: thousands of random valid Linear "
              "configurations, weights and input batches per run are compared "
              "with an independent float64 evaluation of the documented formula; "
              "monotonicity, dominance and weighted-average consequences are "
              "checked on weights produced by the layer's own constraint. Finds "
              "axis/transposition, clipping and bias mistakes; shows no absence.")
LEVEL_NOTE = ("Trusted: TensorFlow/NumPy arithmetic, the harness. Sizes bounded "
              "(<= 8 inputs quick, <= 12 thorough, <= 3 units); tolerance "
              "1e-5*(sum|terms|+1).")
