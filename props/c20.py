"""C20 - Linear layer computes the clipped affine function its weights describe."""
import numpy as np
from hypothesis import strategies as st

from vlib import strategies as S
from vlib.harness import Outcome, TOL_MONO_F, TOL_W, scale_of

ID = "C20"
RULE = ("Hypothesis draws a valid Linear configuration (1-8 inputs, 1-3 units, "
        "bounded-input subsets, bias on/off, dominances, norm), re-shapes its "
        "input bounds (as drawn; values from a wider pool incl. -0.0, 0.1, "
        "1e6 and arbitrary float32 in [-1e3, 1e3]; a zero-width bound; only "
        "input_min / only input_max given; one value shared as upper bound of "
        "one input and lower bound of another - inputs of range dominances "
        "always keep their positive width), a spelling of the hyper-parameters "
        "(ints / strings / tuple / one scalar / None for monotonicities; None "
        "/ 'none' / tuple for bounds), a way of building and calling the layer "
        "(explicit build; built by the first call; numpy input; tf.function "
        "with unknown batch size; Keras functional model) in float32 or "
        "float64, a kernel/bias from the array mixture and a batch of points "
        "inside, on and outside the input bounds (seeded random choice of the "
        "coordinates put on / beyond a bound); the layer output is compared "
        "with a float64 reference sum_i k[i,u]*clip(x_i)+b_u, and "
        "function-level consequences are checked on weights returned by the "
        "layer's own constraint. Non-trivial: kernel not all zero and at "
        "least one input coordinate non-zero; distinct by SHA-1 of the case.")
NT_FLOOR = 0.6
BUDGET = {"quick": 500, "thorough": 6000}
ASSUMPTIONS = ["consequence clauses are judged only on weights that satisfy "
               "the constraints in float64 (C06 judges the projection itself)"]

BOUND_SHAPES = ["asdrawn", "asdrawn", "values", "values", "zero_width",
                "only_min", "only_max", "shared"]
CALL_MODES = ["build", "build", "first_call", "numpy", "function", "model"]
MONO_SPELL = ["int", "int", "str", "mixed", "tuple", "scalar", "none-arg"]
BOUND_SPELL = ["list", "list", "none-str", "tuple", "tuple-none-str",
               "explicit"]
MONO_NAMES = {-1: "decreasing", 0: "none", 1: "increasing"}

_bound_value = st.one_of(
    st.sampled_from([-0.0, 0.0, 0.0, 0.1, -0.1, 1.0 / 3, 1e6, -1e6]),
    S.f32_floats(-1e3, 1e3))
_bound_width = st.sampled_from([0.0, 1e-3, 0.1, 1.0, 7.3, 1e6])


@st.composite
def _rebound(draw, cfg, shape):
  """Re-shapes the input bounds of a drawn config in place (still valid:
  input_min <= input_max everywhere, inputs of range dominances untouched)."""
  d = cfg["dims"]
  keep = set(i for p in cfg["range_dom"] for i in p)
  free = [i for i in range(d) if i not in keep]
  lo, hi = cfg["input_min"], cfg["input_max"]
  if shape in ("only_min", "only_max") and cfg["range_dom"]:
    shape = "values"      # range dominances need both bounds: keep them
  if shape == "values":
    for i in free:
      sides = draw(st.sampled_from(["both", "both", "lo", "hi", "none"]))
      v = S.f32(draw(_bound_value))
      w = S.f32(draw(_bound_width))
      lo[i] = v if sides in ("both", "lo") else None
      hi[i] = S.f32(v + w) if sides in ("both", "hi") else None
  elif shape == "zero_width" and free:
    for n, i in enumerate(draw(st.permutations(free))):
      if n == 0 or draw(st.integers(0, 3)) == 0:
        lo[i] = hi[i] = S.f32(draw(_bound_value))
  elif shape in ("only_min", "only_max"):
    mine, other = (lo, hi) if shape == "only_min" else (hi, lo)
    for i in range(d):
      other[i] = None
    if all(v is None for v in mine):
      mine[draw(st.integers(0, d - 1))] = S.f32(draw(_bound_value))
  elif shape == "shared" and len(free) >= 2:
    i, j = list(draw(st.permutations(free)))[:2]
    v = S.f32(draw(_bound_value))
    w1, w2 = draw(_bound_width), draw(_bound_width)
    hi[i], lo[j] = v, v
    lo[i] = draw(st.sampled_from([None, S.f32(v - w1)]))
    hi[j] = draw(st.sampled_from([None, S.f32(v + w2)]))
  for a, b in zip(lo, hi):
    assert a is None or b is None or a <= b
  return shape


@st.composite
def _case(draw, tier):
  cfg = draw(S.linear_config(max_dims=8 if tier == "quick" else 12))
  bshape = draw(st.sampled_from(BOUND_SHAPES))
  bshape = draw(_rebound(cfg, bshape))
  spell = {"mono": draw(st.sampled_from(MONO_SPELL)),
           "bounds": draw(st.sampled_from(BOUND_SPELL)),
           "pairs": draw(st.sampled_from(["tuple", "tuple", "list"])),
           "scalar_str": draw(st.booleans())}
  # one value / None for all inputs needs a constant vector: construct it
  # (monotonic dominance needs increasing inputs, range dominance one shared
  # non-zero direction).
  if spell["mono"] == "scalar" and len(set(cfg["mono"])) > 1:
    v = 1 if cfg["mono_dom"] else draw(st.sampled_from([-1, 1, 1]))
    cfg["mono"] = [v] * cfg["dims"]
  elif spell["mono"] == "none-arg":
    cfg["mono"] = [0] * cfg["dims"]
    cfg["mono_dom"], cfg["range_dom"] = [], []
  batch = draw(st.integers(1, 5))
  case = {
      "cfg": cfg,
      "kernel": draw(S.array_desc(shape=(cfg["dims"], cfg["units"]))),
      "bias": draw(S.array_desc(kinds=["normal", "zeros", "ints"],
                                shape=(cfg["units"], 1))),
      "x": draw(S.array_desc(kinds=["normal", "uniform", "ints", "ties"],
                             scales=[1e-3, 1.0, 1.0, 10.0, 1e3, 1e6])),
      "x_mode": draw(st.sampled_from(["free", "on_bounds", "outside"])),
      "batch": batch,
      "aux": draw(S.seeds),
      "bshape": bshape,
      "spell": spell,
      "call": draw(st.sampled_from(CALL_MODES)),
      "dtype": draw(st.sampled_from(["float32", "float32", "float64"])),
  }
  return case


def strategy(tier):
  return _case(tier)


def _inputs(case):
  cfg = case["cfg"]
  d, u, b = cfg["dims"], cfg["units"], case["batch"]
  x = S.materialize(case["x"], (b * u * d, 1)).reshape(b, u, d).astype(
      np.float64)
  lo = np.array([-np.inf if v is None else v for v in cfg["input_min"]])
  hi = np.array([np.inf if v is None else v for v in cfg["input_max"]])
  has_lo = np.broadcast_to(np.isfinite(lo), x.shape)
  has_hi = np.broadcast_to(np.isfinite(hi), x.shape)
  if case.get("aux") is None:      # cases recorded before the seeded choice
    pick3 = np.arange(b * u * d).reshape(b, u, d) % 3
    pick2 = np.arange(b * u * d).reshape(b, u, d) % 2
    low_side, high_side = (pick2 == 0) & has_lo, (pick2 == 1) & has_hi
  else:
    rs = np.random.RandomState(case["aux"])
    pick3 = rs.randint(0, 3, size=(b, u, d))
    pick2 = rs.randint(0, 2, size=(b, u, d))
    # every bounded coordinate leaves its interval, on a random side
    low_side = has_lo & ((pick2 == 0) | ~has_hi)
    high_side = has_hi & ~low_side
  if case["x_mode"] == "on_bounds":
    x = np.where((pick3 == 0) & has_lo, lo, x)
    x = np.where((pick3 == 1) & has_hi, hi, x)
  elif case["x_mode"] == "outside":
    x = np.where(low_side, lo - 1 - np.abs(x), x)
    x = np.where(high_side, hi + 1 + np.abs(x), x)
  x = x.astype(np.float32)
  if u == 1:
    x = x[:, 0, :]
  return x, lo, hi


def _ref(x, k, bias, lo, hi, use_bias):
  """float64 reference; x (b,u,d) or (b,d); k (d,u)."""
  x = np.asarray(x, np.float64)
  if x.ndim == 2:
    x = x[:, None, :]
  xc = np.minimum(np.maximum(x, lo), hi)
  terms = xc * k.T[None, :, :].astype(np.float64)      # (b,u,d)
  y = terms.sum(-1)
  mag = np.abs(terms).sum(-1)
  if use_bias:
    y = y + bias[None, :]
    mag = mag + np.abs(bias)[None, :]
  return y, mag


def linear_kwargs(case):
  """Layer kwargs in the case's spelling; same configuration as
  S.linear_kwargs(cfg), which is used when the case carries no spelling.
  Returns (kwargs, labels)."""
  cfg, sp = case["cfg"], case.get("spell")
  if not sp:
    return S.linear_kwargs(cfg), []
  mono, labels, kw = list(cfg["mono"]), [], {}
  how = sp["mono"]
  if how == "scalar" and len(set(mono)) != 1:
    how = "str"
  if how == "none-arg" and any(mono):
    how = "int"
  if how == "scalar":
    kw["monotonicities"] = MONO_NAMES[mono[0]] if sp["scalar_str"] else mono[0]
  elif how == "none-arg":
    kw["monotonicities"] = None
  elif how == "str":
    kw["monotonicities"] = [MONO_NAMES[m] for m in mono]
  elif how == "mixed":
    kw["monotonicities"] = [MONO_NAMES[m] if i % 2 else m
                            for i, m in enumerate(mono)]
  elif how == "tuple":
    kw["monotonicities"] = tuple(mono)
  else:
    kw["monotonicities"] = mono
  labels.append("spell:mono=" + how)
  bs = sp["bounds"]
  for key in ("input_min", "input_max"):
    vals = list(cfg[key])
    if all(v is None for v in vals) and bs != "explicit":
      continue
    if bs in ("none-str", "tuple-none-str", "explicit"):
      vals = ["none" if v is None else v for v in vals]
    kw[key] = tuple(vals) if bs in ("tuple", "tuple-none-str") else vals
  if "input_min" in kw or "input_max" in kw:
    labels.append("spell:bounds=" + bs)
  conv = tuple if sp["pairs"] == "tuple" else list
  if cfg["mono_dom"]:
    kw["monotonic_dominances"] = [conv(p) for p in cfg["mono_dom"]]
  if cfg["range_dom"]:
    kw["range_dominances"] = [conv(p) for p in cfg["range_dom"]]
  if cfg["norm"]:
    kw["normalization_order"] = cfg["norm"]
  return kw, labels


class _GraphCallError(Exception):
  """The layer raised while being traced (Keras functional model / tf.function).

  Keras runs Layer.call through autograph there, so the traceback has no
  tensorflow_lattice frame and the harness could not attribute the exception to
  the library; the configuration and the input are valid by construction, so
  run_case reports it as the same kind of violation (kind "exception")."""


def _traced(thunk):
  try:
    return thunk()
  except Exception as e:  # pylint: disable=broad-except
    raise _GraphCallError("%s: %s" % (type(e).__name__, str(e)[:300]))


def _build(case, k, bias, x):
  """Builds the layer the way the case says; returns (layer, forward, tf).

  forward(z) evaluates the layer on a float array z through the case's call
  path (eager tensor, numpy array, tf.function with unknown batch size, Keras
  functional model); the weights are assigned after the layer exists."""
  import tensorflow as tf
  import tensorflow_lattice as tfl
  cfg = case["cfg"]
  dtype = case.get("dtype", "float32")
  call = case.get("call", "build")
  kw, _ = linear_kwargs(case)
  if dtype != "float32":
    kw["dtype"] = dtype
  layer = tfl.layers.Linear(num_input_dims=cfg["dims"], units=cfg["units"],
                            use_bias=cfg["use_bias"], **kw)
  shape = (None, cfg["dims"]) if cfg["units"] == 1 else (
      None, cfg["units"], cfg["dims"])
  model = fn = None
  if call == "first_call":
    layer(tf.constant(x.astype(dtype)))
  elif call == "model":
    import tf_keras as keras
    inp = keras.Input(shape=shape[1:], dtype=dtype)
    model = keras.Model(inp, _traced(lambda: layer(inp)))
  else:
    layer.build(shape)
  if call == "function":
    fn = tf.function(lambda t: layer(t), autograph=False,
                     input_signature=[tf.TensorSpec(shape, dtype)])
  layer.kernel.assign(k.astype(dtype))
  if cfg["use_bias"]:
    layer.bias.assign((bias[0] if cfg["units"] == 1 else bias).astype(dtype))

  def forward(z):
    z = np.asarray(z).astype(dtype)
    if call == "numpy":
      y = layer(z)
    elif call == "function":
      y = _traced(lambda: fn(tf.constant(z)))
    elif call == "model":
      y = _traced(lambda: model(tf.constant(z)))
    else:
      y = layer(tf.constant(z))
    return y.numpy().astype(np.float64)
  return layer, forward, tf


def _satisfies(cfg, w, lo, hi):
  """float64: do weights w (d,u) satisfy every configured constraint?"""
  s = scale_of(w)
  tol = 1e-6 * s
  m = np.array(cfg["mono"], np.float64)[:, None]
  if np.any(w * m < 0):
    return False
  for a, b in cfg["mono_dom"]:
    if np.any(w[a] - w[b] < 0):
      return False
  for a, b in cfg["range_dom"]:
    ra, rb = hi[a] - lo[a], hi[b] - lo[b]
    if np.any(np.abs(w[a]) * ra - np.abs(w[b]) * rb < -tol * max(1, ra, rb)):
      return False
  return True


def _terms_magnitude(w, z):
  """max over examples and units of sum_i |w[i, unit]| * |z[example, unit, i]|.

  The float32 rounding of the layer's sum scales with its TERMS, not with its
  value: weights 0.447 on inputs 968 and -970.875 give an output of -1.3 built
  from terms of 433, i.e. an absolute error of a few ulp32(433) = 3e-5.
  """
  z = np.abs(np.asarray(z, np.float64))
  if z.ndim == 2:
    z = z[:, None, :]
  return float(np.max(np.einsum("bui,iu->bu", np.broadcast_to(
      z, (z.shape[0], w.shape[1], z.shape[2])), np.abs(w))))


def run_case(case):
  out = Outcome()
  cfg = case["cfg"]
  d, u = cfg["dims"], cfg["units"]
  k = S.materialize(case["kernel"], (d, u))
  bias = S.materialize(case["bias"], (u, 1))[:, 0]
  x, lo, hi = _inputs(case)
  dtype = case.get("dtype", "float32")
  try:
    layer, forward, tf = _build(case, k, bias, x)
    y = forward(x)
  except _GraphCallError as e:
    out.label("exception")
    out.nontrivial = True
    out.violate(str(e), kind="exception", exc=str(e).split(":")[0],
                where="linear_layer.py:call(traced)")
    return out
  yref, mag = _ref(x, k, bias.astype(np.float64), lo, hi, cfg["use_bias"])
  out.label("units>1" if u > 1 else "units=1",
            "bias" if cfg["use_bias"] else "nobias", "x:" + case["x_mode"],
            "bounds:%s" % ("none" if not np.isfinite(lo).any() and
                           not np.isfinite(hi).any() else "some"))
  out.label(*linear_kwargs(case)[1])
  out.label("call:" + case.get("call", "build"), "dtype:" + dtype)
  if u > 1 and case["x_mode"] == "outside" and (
      np.isfinite(lo).any() or np.isfinite(hi).any()):
    out.label("units>1&x:outside")
  fl, fh = np.isfinite(lo), np.isfinite(hi)
  if fl.any() and not fh.any():
    out.label("bounds:only-min-kwarg")
  if fh.any() and not fl.any():
    out.label("bounds:only-max-kwarg")
  if np.any(fl != fh):
    out.label("bounds:one-sided-dim")
  if np.any(lo[fl] == 0) or np.any(hi[fh] == 0):
    out.label("bounds:zero-valued")
  if any(v is not None and v == 0 and np.signbit(v)
         for v in cfg["input_min"] + cfg["input_max"]):
    out.label("bounds:negative-zero")
  if np.any(fl & fh & (lo == hi)):
    out.label("bounds:zero-width")
  if any(fl[i] and fh[j] and lo[i] == hi[j] for i in range(d)
         for j in range(d) if i != j):
    out.label("bounds:shared-value")
  vals = np.concatenate([lo[fl], hi[fh]])
  if np.any(np.abs(vals) >= 1e6):
    out.label("bounds:|v|>=1e6")
  if np.any(vals * 1024 != np.round(vals * 1024)):
    out.label("bounds:non-dyadic")
  out.nontrivial = bool(np.any(k != 0) and np.any(x != 0))
  out.checks += 1
  if y.shape != (case["batch"], u):
    out.violate("output shape %s != %s" % (y.shape, (case["batch"], u)),
                kind="shape")
    return out
  err = np.abs(y - yref)
  # float64 layers get the same float32-representable inputs and weights, so
  # only float64 rounding separates them from the reference.
  tol = (1e-5 if dtype == "float32" else 1e-10) * (mag + 1.0)
  out.info["max_err_over_tol"] = float(np.max(err / tol))
  if not np.all(np.isfinite(y)) or np.any(err > tol):
    i = np.unravel_index(np.argmax(err / tol), err.shape)
    out.violate("Linear output %r differs from clipped affine reference %r "
                "(example %d unit %d)" % (float(y[i]), float(yref[i]), i[0],
                                           i[1]), kind="value")
    return out

  # ---- consequences on constraint-satisfying weights
  if layer.kernel.constraint is None:
    return out
  w32 = layer.kernel.constraint(tf.constant(k.astype(dtype))).numpy()
  w = w32.astype(np.float64)
  if not np.all(np.isfinite(w)) or not _satisfies(cfg, w, lo, hi):
    out.label("cons:weights-not-feasible(C06)")
    return out
  layer.kernel.assign(w32)
  out.label("cons:checked")
  f = lambda z: layer(tf.constant(z.astype(np.float32).astype(dtype))
                      ).numpy().astype(np.float64)
  x3 = x if x.ndim == 3 else x[:, None, :]
  pack = (lambda z: z) if u > 1 else (lambda z: z[:, 0, :])
  base = f(pack(x3))
  fs = max(1.0, float(np.max(np.abs(base))))
  mtol = TOL_MONO_F * fs
  for i in range(d):
    if cfg["mono"][i] == 0:
      continue
    for delta in (0.5, 7.0, -0.5, -7.0):     # steps up and steps down
      x2 = x3.astype(np.float64).copy()
      x2[:, :, i] += delta * max(1.0, float(np.max(np.abs(x3[:, :, i]))))
      moved = (x2.astype(np.float32)[:, :, i] - x3[:, :, i]) * np.sign(delta)
      if not np.all(moved >= 0):
        continue
      y2 = f(pack(x2))
      y1 = base
      out.checks += 1
      fs2 = max(fs, float(np.max(np.abs(y2))))
      bad = (y2 - y1) * cfg["mono"][i] * np.sign(delta) < -TOL_MONO_F * fs2
      if np.any(bad):
        out.violate("output not monotone (direction %d) in input %d" %
                    (cfg["mono"][i], i), kind="fn-monotonicity")
        return out
  # monotonic dominance: per unit step (inside bounds, no clipping)
  for a, b in cfg["mono_dom"]:
    x0 = np.zeros_like(x3, dtype=np.float64)
    ok = True
    for dim in (a, b):
      l, h = lo[dim], hi[dim]
      if np.isfinite(l) and np.isfinite(h):
        if h - l < 1:
          ok = False
        x0[:, :, dim] = l
      elif np.isfinite(l):
        x0[:, :, dim] = l
      elif np.isfinite(h):
        x0[:, :, dim] = h - 1
    if not ok:
      continue
    xa, xb = x0.copy(), x0.copy()
    xa[:, :, a] += 1
    xb[:, :, b] += 1
    fa, fb, f0 = f(pack(xa)), f(pack(xb)), f(pack(x0))
    out.checks += 1
    out.label("cons:mono-dominance")
    sc = max(1.0, np.max(np.abs(fa)), np.max(np.abs(fb)), np.max(np.abs(f0)),
             _terms_magnitude(w, xa), _terms_magnitude(w, xb))
    if np.any((fa - f0) - (fb - f0) < -TOL_W * sc):
      out.violate("unit step along dominant input %d changes output less than "
                  "along weak input %d" % (a, b), kind="fn-mono-dominance")
      return out
    # second base point: the batch itself, the two inputs moved to where a unit
    # step stays inside their bounds (all other inputs anywhere, also clipped).
    xs = x3.astype(np.float64).copy()
    for dim in (a, b):
      l, h = lo[dim], hi[dim]
      xs[:, :, dim] = np.minimum(np.maximum(xs[:, :, dim], l), h - 1)
    xs = xs.astype(np.float32).astype(np.float64)
    xa, xb = xs.copy(), xs.copy()
    xa[:, :, a] += 1
    xb[:, :, b] += 1
    xa = xa.astype(np.float32).astype(np.float64)
    xb = xb.astype(np.float32).astype(np.float64)
    if (np.all(xa[:, :, a] - xs[:, :, a] == 1) and
        np.all(xb[:, :, b] - xs[:, :, b] == 1) and
        np.all(xs[:, :, a] >= lo[a]) and np.all(xa[:, :, a] <= hi[a]) and
        np.all(xs[:, :, b] >= lo[b]) and np.all(xb[:, :, b] <= hi[b])):
      fa, fb, f0 = f(pack(xa)), f(pack(xb)), f(pack(xs))
      out.checks += 1
      out.label("cons:mono-dominance@batch")
      sc = max(1.0, np.max(np.abs(fa)), np.max(np.abs(fb)), np.max(np.abs(f0)),
               _terms_magnitude(w, xa), _terms_magnitude(w, xb))
      if np.any((fa - f0) - (fb - f0) < -TOL_W * sc):
        out.violate("unit step from a batch point along dominant input %d "
                    "changes output less than along weak input %d" % (a, b),
                    kind="fn-mono-dominance")
        return out
  for a, b in cfg["range_dom"]:
    x0 = np.zeros_like(x3, dtype=np.float64)
    for dim in (a, b):
      x0[:, :, dim] = lo[dim]
    xa, xb = x0.copy(), x0.copy()
    xa[:, :, a] = hi[a] + 3.0   # clipped to input_max
    xb[:, :, b] = hi[b] + 3.0
    fa, fb, f0 = f(pack(xa)), f(pack(xb)), f(pack(x0))
    out.checks += 1
    out.label("cons:range-dominance")
    sc = max(1.0, np.max(np.abs(fa)), np.max(np.abs(fb)), np.max(np.abs(f0)))
    if np.any(np.abs(fa - f0) - np.abs(fb - f0) < -TOL_W * 10 * sc):
      out.violate("full-range change along dominant input %d smaller than "
                  "along weak input %d" % (a, b), kind="fn-range-dominance")
      return out
  if cfg["norm"] == 1 and all(m == 1 for m in cfg["mono"]):
    nrm = np.abs(w).sum(0)
    if np.all(np.abs(nrm - 1) < 1e-4):
      if cfg["use_bias"]:
        layer.bias.assign((np.zeros_like(bias)[0] if u == 1 else
                           np.zeros_like(bias)).astype(dtype))
      xin = x3.astype(np.float64)
      xc = np.minimum(np.maximum(xin, lo), hi)
      ya = f(pack(x3))
      out.checks += 1
      sc = scale_of(xc)
      if np.any(ya < xc.min(-1) - 1e-4 * sc) or np.any(
          ya > xc.max(-1) + 1e-4 * sc):
        out.violate("normalised all-increasing layer is not a weighted average "
                    "of its (clipped) inputs", kind="fn-weighted-average")
        return out
      out.label("cons:weighted-average")
  return out

TITLE = "Linear layer computes the clipped affine function its weights describe"
TECHNIQUE = ("property-based testing (Hypothesis): differential against a "
             "float64 reference formula + metamorphic input pairs")
LEVEL_TEXT = ("Generated-input exploration: thousands of random valid Linear "
              "configurations, weights and input batches per run are compared "
              "with an independent float64 evaluation of the documented formula; "
              "monotonicity, dominance and weighted-average consequences are "
              "checked on weights produced by the layer's own constraint. Finds "
              "axis/transposition, clipping and bias mistakes; shows no absence.")
LEVEL_NOTE = ("Trusted: TensorFlow/NumPy arithmetic, the harness. Sizes bounded "
              "(<= 8 inputs quick, <= 12 thorough, <= 3 units); tolerance "
              "1e-5*(sum|terms|+1) for float32 layers, 1e-10*(sum|terms|+1) for "
              "float64 layers. Monotonicity is probed with steps up and down from "
              "the batch points, monotonic dominance by unit steps from a bounds "
              "corner and from the batch points (only where the float32 step is "
              "exactly 1 and stays inside the bounds). A layer that raises while "
              "traced (Keras model / tf.function) is reported as a violation of "
              "kind exception. The consequence probes always call the layer "
              "eagerly; the build / call variants (first call, numpy, "
              "tf.function, Keras model) are judged by the affine identity.")
