#!/bin/sh
# Offline setup: make sure hypothesis is importable by /venv/bin/python and
# atheris is available under /verif/.deps; then run the oracle self-tests.
here=$(cd "$(dirname "$0")" && pwd)
cd "$here" || exit 2
export PIP_NO_INDEX=1
W=/opt/veriftools/wheels
if ! /venv/bin/python -c "import hypothesis" 2>/dev/null; then
  /venv/bin/pip install --no-index --find-links "$W" hypothesis >/dev/null 2>&1 || \
  /venv/bin/pip install --no-index --find-links "$W" --target "$here/.deps" hypothesis >/dev/null 2>&1
fi
if ! PYTHONPATH="$here/.deps" /venv/bin/python -c "import atheris" 2>/dev/null; then
  /venv/bin/pip install --no-index --find-links "$W" --target "$here/.deps" atheris >/dev/null 2>&1 || \
    echo "note: atheris not installable; fuzz tiers will fall back to Hypothesis only"
fi
PYTHONPATH="$here:$here/.deps" /venv/bin/python -c "import hypothesis, numpy, scipy; print('setup ok: hypothesis', hypothesis.__version__)" || exit 2
PYTHONPATH="/repo:$here:$here/.deps" TF_CPP_MIN_LOG_LEVEL=3 CUDA_VISIBLE_DEVICES= /venv/bin/python -m vlib.selftest || exit 2
