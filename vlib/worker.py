"""One worker process: a search shard, a shrink run, or a batch of replays."""
import argparse
import importlib
import json
import os
import sys
import time
import traceback


def main(argv=None):
  ap = argparse.ArgumentParser()
  ap.add_argument("--prop", required=True)
  ap.add_argument("--mode", required=True,
                  choices=["search", "shrink", "replay", "fuzz"])
  ap.add_argument("--runs", type=int, default=1000)
  ap.add_argument("--corpus", default=None)
  ap.add_argument("--tier", default="quick")
  ap.add_argument("--shard", type=int, default=0)
  ap.add_argument("--nshards", type=int, default=1)
  ap.add_argument("--seed", type=int, default=1)
  ap.add_argument("--scale", type=float, default=1.0)
  ap.add_argument("--match", default=None)
  ap.add_argument("--files", nargs="*", default=[])
  ap.add_argument("--finding-examples", default=None)
  ap.add_argument("--verbose", action="store_true")
  ap.add_argument("--out", required=True)
  args = ap.parse_args(argv)

  from vlib import harness  # pylint: disable=g-import-not-at-top
  harness.configure_tf()
  if args.mode == "fuzz":
    return fuzz_main(args, harness)
  mod = importlib.import_module("props." + args.prop.lower())
  if hasattr(mod, "selftest"):
    mod.selftest()

  if args.mode == "replay":
    stats = harness.Stats()
    stats.MAX_VIOL_PER_SIG = 1000
    cases = []
    for path in args.files:
      with open(path) as f:
        obj = json.load(f)
      cases.append((path, obj["case"] if "case" in obj and "property" in obj
                    else obj))
    if args.finding_examples:
      with open(args.finding_examples) as f:
        for e in json.load(f):
          cases.append(("finding:" + e["id"], e["case"]))
    for path, case in cases:
      out = harness.safe_run(mod, case)
      stats.record(case, out)
      if args.verbose:
        print("replay %s" % path)
        print("  classes: %s  nontrivial=%s discard=%s" % (
            out.classes, out.nontrivial, out.discard))
        for k, v in sorted(out.info.items()):
          print("  %s = %s" % (k, v))
        for v in out.violations:
          print("  VIOLATES: %s" % v["msg"])
    res = stats.dump()
  else:
    budget = mod.BUDGET[args.tier]
    n = max(1, int(round(budget * args.scale)))
    hyp_seed = harness.hash32(args.seed, args.prop.upper(), args.shard,
                              args.nshards)
    match = json.loads(args.match) if args.mode == "shrink" else None
    if hasattr(mod, "begin_shard"):
      mod.begin_shard(args.tier, args.shard, args.nshards, args.seed)
    res = harness.run_search(mod, args.tier, hyp_seed, n, shrink_match=match)
    if hasattr(mod, "extra_stats"):
      res["extra"] = mod.extra_stats()
  with open(args.out, "w") as f:
    json.dump(res, f)


def fuzz_main(args, harness):
  """Coverage-guided campaign (atheris / libFuzzer) over the SAME cases.

  Bytes are decoded into case objects by Hypothesis' fuzz_one_input for the
  module's strategy, the case is judged by the same run_case (semantic oracle
  inside the target), coverage feedback comes from tensorflow_lattice only.
  libFuzzer never returns from Fuzz(), so statistics are flushed to --out every
  100 executions and at the last one.
  """
  import atheris  # pylint: disable=g-import-not-at-top
  with atheris.instrument_imports(include=["tensorflow_lattice"]):
    import tensorflow_lattice  # pylint: disable=g-import-not-at-top,unused-import
  from hypothesis import HealthCheck, given, settings  # pylint: disable=g-import-not-at-top
  mod = importlib.import_module("props." + args.prop.lower())
  if hasattr(mod, "selftest"):
    mod.selftest()
  tier = args.tier
  strat = mod.fuzz_strategy(tier) if hasattr(mod, "fuzz_strategy") else (
      mod.strategy(tier))
  stats = harness.Stats()
  state = {"calls": 0, "decoded": 0}

  def flush():
    res = stats.dump()
    res["fuzz"] = {"executions": state["calls"], "decoded_cases": state[
        "decoded"], "runs_requested": args.runs, "libfuzzer_seed": args.seed}
    tmp = args.out + ".tmp"
    with open(tmp, "w") as f:
      json.dump(res, f)
    os.replace(tmp, args.out)

  @settings(database=None, deadline=None,
            suppress_health_check=list(HealthCheck))
  @given(strat)
  def target(case):
    state["decoded"] += 1
    stats.record(case, harness.safe_run(mod, case))

  fuzz_one = target.hypothesis.fuzz_one_input

  def test_one_input(data):
    state["calls"] += 1
    try:
      fuzz_one(data)
    except harness.HarnessError:
      raise
    if state["calls"] % 100 == 0 or state["calls"] >= args.runs:
      flush()
    if state["calls"] % 200 == 0:
      # Keras keeps every layer / model ever built reachable through its global
      # graph and name-uid tables; without this a 30000-execution campaign
      # outgrows libFuzzer's RSS limit (exit code 71).
      import gc  # pylint: disable=g-import-not-at-top
      import tf_keras  # pylint: disable=g-import-not-at-top
      tf_keras.backend.clear_session()
      gc.collect()

  flush()
  argv = [sys.argv[0], "-runs=%d" % args.runs, "-seed=%d" % max(1, args.seed),
          "-max_len=4096", "-print_final_stats=0", "-verbosity=0",
          "-len_control=0", "-rss_limit_mb=4096", "-timeout=3600"]
  if args.corpus:
    argv.append(args.corpus)
  atheris.Setup(argv, test_one_input)
  atheris.Fuzz()


if __name__ == "__main__":
  try:
    main()
  except SystemExit:
    raise
  except BaseException:  # pylint: disable=broad-except
    traceback.print_exc()
    sys.exit(3)
