"""./check entry: parent process (sharding, merging, verdicts, evidence)."""
import argparse
import glob
import importlib
import json
import os
import shutil
import subprocess
import sys
import tempfile
import time

HERE = os.path.dirname(os.path.dirname(os.path.abspath(__file__)))
SHARDS = {"quick": 8, "thorough": 16}
WORKER_TIMEOUT = {"quick": 45 * 60, "thorough": 8 * 3600}
FUZZ_CHUNK = 8000      # executions per fuzzing process (memory, see main())


def _load_findings(prop_id):
  path = os.path.join(HERE, "known_findings.json")
  if not os.path.exists(path):
    return []
  with open(path) as f:
    data = json.load(f)
  return [e for e in data.get("findings", []) if e.get("property") == prop_id]


def _spawn(args, out_path, log_path):
  cmd = [sys.executable, "-m", "vlib.worker"] + args + ["--out", out_path]
  logf = open(log_path, "w")
  return subprocess.Popen(cmd, cwd=HERE, stdout=logf, stderr=subprocess.STDOUT,
                          env=dict(os.environ)), logf


def _wait_all(procs, timeout):
  """Waits for all workers; returns list of (name, rc)."""
  deadline = time.time() + timeout
  res = []
  for name, (p, logf) in procs:
    left = max(1.0, deadline - time.time())
    try:
      rc = p.wait(timeout=left)
    except subprocess.TimeoutExpired:
      p.kill()
      p.wait()
      rc = -9
    logf.close()
    res.append((name, rc))
  return res


def _read(path):
  with open(path) as f:
    return json.load(f)


def harness_fail(msg):
  sys.stdout.write("HARNESS-ERROR: %s\n" % msg)
  sys.stdout.flush()
  sys.exit(2)


def main(argv=None):
  ap = argparse.ArgumentParser()
  ap.add_argument("prop")
  ap.add_argument("--tier", default=os.environ.get("VERIF_TIER", "quick"),
                  choices=["quick", "thorough"])
  ap.add_argument("--replay", default=None)
  ap.add_argument("--shards", type=int, default=None)
  ap.add_argument("--scale", type=float,
                  default=float(os.environ.get("VERIF_BUDGET_SCALE", "1")))
  ap.add_argument("--no-shrink", action="store_true")
  ap.add_argument("--no-evidence", action="store_true")
  args = ap.parse_args(argv)

  prop_id = args.prop.upper()
  seed = int(os.environ.get("VERIF_SEED", "1") or "1")
  t0 = time.time()
  try:
    mod_path = os.path.join(HERE, "props", prop_id.lower() + ".py")
    if not os.path.exists(mod_path):
      harness_fail("no property module for %s" % prop_id)
  except SystemExit:
    raise

  tmp = tempfile.mkdtemp(prefix="verif-%s-" % prop_id)
  try:
    rc = _run(prop_id, args, seed, tmp, t0)
  finally:
    shutil.rmtree(tmp, ignore_errors=True)
  sys.exit(rc)


def _run(prop_id, args, seed, tmp, t0):
  findings = _load_findings(prop_id)
  open_findings = [f for f in findings if f.get("status") == "open"]

  # ---------------------------------------------------------------- replay
  if args.replay:
    out = os.path.join(tmp, "replay.json")
    p, logf = _spawn(["--prop", prop_id, "--mode", "replay", "--files",
                      os.path.abspath(args.replay), "--verbose"], out,
                     os.path.join(tmp, "replay.log"))
    (_, rc), = _wait_all([("replay", (p, logf))], 3600)
    sys.stdout.write(open(os.path.join(tmp, "replay.log")).read())
    if rc != 0 or not os.path.exists(out):
      harness_fail("replay worker failed (rc=%s)" % rc)
    res = _read(out)
    bad = 0
    for v in res["violations"]:
      known = [f for f in open_findings if _match(v["sig"], f)]
      if known:
        print("KNOWN-FINDING: %s [%s]" % (
            known[0]["record"].split("KNOWN-FINDING:")[-1].strip(),
            known[0]["id"]))
      else:
        bad += 1
        print("violation: %s  sig=%s" % (v["msg"], json.dumps(v["sig"])))
    if bad:
      print("VIOLATION property=%s replay=%s" % (prop_id,
                                                 os.path.abspath(args.replay)))
      return 1
    print("replay ok: property %s held on %s" % (prop_id, args.replay))
    return 0

  # ---------------------------------------------------------------- search
  tier = args.tier
  nshards = args.shards or SHARDS[tier]
  procs = []
  replay_files = sorted(glob.glob(os.path.join(HERE, "replays", prop_id,
                                               "*.json")))
  finding_examples = os.path.join(tmp, "finding_examples.json")
  with open(finding_examples, "w") as f:
    json.dump([{"id": e["id"], "case": e["example"]} for e in open_findings
               if e.get("example") is not None], f)
  p = _spawn(["--prop", prop_id, "--mode", "replay", "--files"] + replay_files
             + ["--finding-examples", finding_examples],
             os.path.join(tmp, "replay.json"), os.path.join(tmp, "replay.log"))
  procs.append(("replay", p))
  for i in range(nshards):
    p = _spawn(["--prop", prop_id, "--mode", "search", "--tier", tier,
                "--shard", str(i), "--nshards", str(nshards), "--seed",
                str(seed), "--scale", str(args.scale)],
               os.path.join(tmp, "shard%d.json" % i),
               os.path.join(tmp, "shard%d.log" % i))
    procs.append(("shard%d" % i, p))
  results = _wait_all(procs, WORKER_TIMEOUT[tier])
  # ---- coverage-guided campaign (atheris), thorough tier only
  mod0 = importlib.import_module("props." + prop_id.lower())
  fuzz_runs = int(getattr(mod0, "FUZZ", {}).get(tier, 0) * args.scale)
  fuzz_names = []
  if fuzz_runs > 0:
    # TensorFlow / Keras retain memory per built model (~70 MB per 1000
    # executions of C16), so a campaign is cut into waves of at most FUZZ_CHUNK
    # executions per process; a shard's corpus directory carries over from one
    # wave to the next, so coverage feedback accumulates across waves.
    cdirs = []
    for i in range(nshards):
      cdir = os.path.join(tmp, "corpus%d" % i)
      os.makedirs(cdir)
      committed = os.path.join(HERE, "corpus", prop_id)
      if os.path.isdir(committed) and i % 2 == 1:
        for fn in os.listdir(committed):      # odd shards start from the corpus
          shutil.copy(os.path.join(committed, fn), cdir)
      cdirs.append(cdir)
    left, wave = fuzz_runs, 0
    while left > 0:
      runs = min(left, FUZZ_CHUNK)
      fprocs = []
      for i in range(nshards):
        name = "fuzz%d_%d" % (i, wave)
        p = _spawn(["--prop", prop_id, "--mode", "fuzz", "--tier", tier,
                    "--runs", str(runs), "--seed",
                    str(seed * 1000 + 100 * wave + i + 1),
                    "--corpus", cdirs[i]],
                   os.path.join(tmp, name + ".json"),
                   os.path.join(tmp, name + ".log"))
        fprocs.append((name, p))
        fuzz_names.append(name)
      results += _wait_all(fprocs, WORKER_TIMEOUT[tier])
      left -= runs
      wave += 1
  for name, rc in results:
    outp = os.path.join(tmp, name + ".json")
    if rc != 0 or not os.path.exists(outp):
      log = open(os.path.join(tmp, name + ".log")).read()[-4000:]
      harness_fail("worker %s failed rc=%s\n%s" % (name, rc, log))

  merged = {"evaluations": 0, "checks": 0, "hashes": set(), "classes": {},
            "discards": {}, "samples": [], "violations": [], "extra": {}}
  replay_res = _read(os.path.join(tmp, "replay.json"))
  shard_res = [_read(os.path.join(tmp, "shard%d.json" % i))
               for i in range(nshards)]
  fuzz_res = [_read(os.path.join(tmp, n + ".json")) for n in fuzz_names]
  fuzz_summary = None
  if fuzz_res:
    fuzz_summary = {
        "engine": "atheris (libFuzzer) over Hypothesis fuzz_one_input",
        "processes": len(fuzz_res),
        "executions": sum(r["fuzz"]["executions"] for r in fuzz_res),
        "decoded_cases": sum(r["fuzz"]["decoded_cases"] for r in fuzz_res),
        "coverage_feedback": "tensorflow_lattice modules only",
        "corpora": "even shards start empty, odd shards from corpus/<ID>/ "
                   "when present; waves of at most %d executions per "
                   "process share the shard's corpus directory" % FUZZ_CHUNK}
    for r in fuzz_res:
      for v in r["violations"]:
        v["shard"] = "fuzz"
    shard_res = shard_res + fuzz_res
  for r in shard_res:
    merged["evaluations"] += r["evaluations"]
    merged["checks"] += r.get("checks", 0)
    merged["hashes"].update(r["nontrivial_hashes"])
    for k, v in r["classes"].items():
      merged["classes"][k] = merged["classes"].get(k, 0) + v
    for k, v in r["discards"].items():
      merged["discards"][k] = merged["discards"].get(k, 0) + v
    for k, v in (r.get("extra") or {}).items():
      if isinstance(v, (int, float)):
        merged["extra"][k] = merged["extra"].get(k, 0) + v
      else:
        merged["extra"].setdefault(k, v)
  seen_cls = set()
  for r in shard_res:
    for k, lst in r["samples"].items():
      if k not in seen_cls and len(merged["samples"]) < 10:
        seen_cls.add(k)
        merged["samples"].append({"class": k, "case": lst[0]})
  for i, r in enumerate(shard_res):
    for v in r["violations"]:
      v.setdefault("shard", i)
      merged["violations"].append(v)
  for v in replay_res["violations"]:
    v["shard"] = "replay"
    merged["violations"].append(v)

  # ------------------------------------------------------------- verdicts
  repro = {f["id"]: 0 for f in open_findings}
  for r in shard_res + [replay_res]:
    for k, n in r.get("violation_counts", {}).items():
      sig = json.loads(k)
      for f in open_findings:
        if _match(sig, f):
          repro[f["id"]] += n
          break
  new = {}
  for v in merged["violations"]:
    if any(_match(v["sig"], f) for f in open_findings):
      continue
    key = json.dumps(v["sig"], sort_keys=True)
    cur = new.get(key)
    size = len(json.dumps(v["case"]))
    if cur is None or size < cur[0]:
      new[key] = (size, v)

  if os.environ.get("VERIF_DEBUG"):
    tot = {}
    for r in shard_res + [replay_res]:
      for k, n in r.get("violation_counts", {}).items():
        tot[k] = tot.get(k, 0) + n
    for k, n in sorted(tot.items()):
      print("debug: %6d x %s" % (n, k))
  for f in open_findings:
    print("KNOWN-FINDING: %s [%s; reproduced by %d case(s) in this run]" % (
        f["record"].split("KNOWN-FINDING:")[-1].strip(), f["id"],
        repro[f["id"]]))

  violation_lines = []
  if new:
    found_dir = os.environ.get("VERIF_FOUND_DIR") or os.path.join(
        HERE, "replays", prop_id, "found")
    os.makedirs(found_dir, exist_ok=True)
    items = sorted(new.items())[:6]
    shrunk = {}
    if not args.no_shrink:
      sprocs = []
      for n, (key, (_, v)) in enumerate(items):
        if not isinstance(v["shard"], int):
          continue
        sp = _spawn(["--prop", prop_id, "--mode", "shrink", "--tier", tier,
                     "--shard", str(v["shard"]), "--nshards", str(nshards),
                     "--seed", str(seed), "--scale", str(args.scale),
                     "--match", key],
                    os.path.join(tmp, "shrink%d.json" % n),
                    os.path.join(tmp, "shrink%d.log" % n))
        sprocs.append(("shrink%d" % n, sp))
      for (name, rc) in _wait_all(sprocs, 15 * 60):
        outp = os.path.join(tmp, name + ".json")
        if rc == 0 and os.path.exists(outp):
          s = _read(outp).get("shrunk")
          if s and s.get("case") is not None:
            shrunk[int(name[6:])] = s
    for n, (key, (_, v)) in enumerate(items):
      case, msg = v["case"], v["msg"]
      if n in shrunk and shrunk[n]["size"] <= len(
          json.dumps(case, sort_keys=True, separators=(",", ":"))):
        case, msg = shrunk[n]["case"], shrunk[n]["viol"]["msg"]
      from vlib.harness import case_hash  # pylint: disable=g-import-not-at-top
      path = os.path.join(found_dir, "found-%s.json" % case_hash(case))
      with open(path, "w") as f:
        json.dump({"property": prop_id, "sig": v["sig"], "msg": msg,
                   "case": case}, f, indent=1, sort_keys=True)
      print("violation: %s\n  sig=%s" % (msg, key))
      violation_lines.append("VIOLATION property=%s replay=%s" % (prop_id, path))

  # -------------------------------------------------------------- evidence
  mod = importlib.import_module("props." + prop_id.lower())
  nt = len(merged["hashes"])
  ev = {
      "property_id": prop_id, "tier": tier, "seed": seed,
      "level": "exploration",
      "coverage": {
          "evaluations": merged["evaluations"],
          "distinct_nontrivial": nt,
          "rule": mod.RULE,
          "samples": merged["samples"],
          "oracle_comparisons": merged["checks"],
          "classes": dict(sorted(merged["classes"].items())),
          "discarded": merged["discards"],
          "replays_run": replay_res["evaluations"],
          "shards": nshards,
          "known_findings_reproduced": repro,
          "new_violation_signatures": sorted(new.keys()),
          "exhaustive": False,
      },
      "assumptions": getattr(mod, "ASSUMPTIONS", []) + [
          "TensorFlow, tf_keras, NumPy and SciPy are trusted",
          "float32 claims are judged with the tolerances of DESIGN 2.5"],
      "wall_s": round(time.time() - t0, 2),
      "violations": len(new),
  }
  if merged["extra"]:
    ev["coverage"]["extra"] = merged["extra"]
  if fuzz_summary:
    ev["coverage"]["fuzz"] = fuzz_summary
  if not args.no_evidence:
    os.makedirs(os.path.join(HERE, "evidence"), exist_ok=True)
    with open(os.path.join(HERE, "evidence", prop_id + ".json"), "w") as f:
      json.dump(ev, f, indent=1, sort_keys=True)
      f.write("\n")

  print("%s %s seed=%d: %d cases, %d distinct non-trivial, %d oracle "
        "comparisons, %d replays, %.0fs" % (
            prop_id, tier, seed, merged["evaluations"], nt, merged["checks"],
            replay_res["evaluations"], time.time() - t0))
  if violation_lines:
    for l in violation_lines:
      print(l)
    return 1
  floor = getattr(mod, "NT_FLOOR", 0.3)
  if merged["evaluations"] == 0 or nt < 2 or (
      nt < floor * merged["evaluations"] * getattr(mod, "DISTINCT_SLACK", 0.5)):
    harness_fail("non-trivial fraction too low: %d of %d (floor %.2f)" % (
        nt, merged["evaluations"], floor))
  return 0


def _match(sig, finding):
  return all(sig.get(k) == v for k, v in finding.get("match", {}).items())


if __name__ == "__main__":
  main()
