"""Shared harness: tolerances, outcome objects, statistics, worker loop.

A property module (props/cXX.py) exposes

  ID, TITLE, RULE (text of the non-triviality rule), NT_FLOOR (fraction),
  BUDGET = {"quick": cases_per_shard, "thorough": cases_per_shard},
  strategy(tier)  -> hypothesis strategy of JSON-serialisable case dicts
  run_case(case)  -> Outcome

or, for history properties, additionally  machine(tier, sink)  returning a
RuleBasedStateMachine class that records its history as a case dict and calls
sink(case, outcome) in teardown; run_case(case) replays such a history.
"""
import hashlib
import json
import math
import os
import re
import sys
import time
import traceback

import numpy as np

# --------------------------------------------------------------------------
# Tolerances (DESIGN 2.5 rule 3).  No check may loosen these locally.
TOL_W = 2e-5        # weight inequalities / "unchanged": measure <= TOL_W * S
TOL_F = 1e-4        # pointwise equality with a reference function (relative)
TOL_MONO_F = 1e-5   # function-level monotonicity over input pairs (relative)


def scale_of(*arrays_or_scalars):
  """S = max(1, max|.|) over all finite arguments (None ignored)."""
  s = 1.0
  for a in arrays_or_scalars:
    if a is None:
      continue
    a = np.asarray(a, dtype=np.float64)
    if a.size:
      a = a[np.isfinite(a)]
      if a.size:
        s = max(s, float(np.max(np.abs(a))))
  return s


def ulp32(x):
  return float(np.spacing(np.float32(abs(x))))


# --------------------------------------------------------------------------
class Outcome(object):
  """What one case showed."""

  def __init__(self):
    self.violations = []   # list of {"sig": {...}, "msg": str}
    self.classes = []      # labels for the distribution histogram
    self.nontrivial = False
    self.discard = None    # reason string when the case makes no claim
    self.info = {}         # measurements, printed on --replay
    self.checks = 0        # number of individual oracle comparisons made

  def violate(self, msg, **sig):
    self.violations.append({"sig": sig, "msg": str(msg)[:600]})

  def label(self, *names):
    for n in names:
      if n not in self.classes:
        self.classes.append(n)


class HarnessError(Exception):
  pass


def canonical(case):
  return json.dumps(case, sort_keys=True, separators=(",", ":"))


def case_hash(case):
  return hashlib.sha1(canonical(case).encode()).hexdigest()[:16]


def hash32(*parts):
  h = hashlib.sha1("|".join(str(p) for p in parts).encode()).digest()
  return int.from_bytes(h[:4], "big")


def _lattice_frame(tb):
  """Innermost traceback frame inside tensorflow_lattice (file:func) or None."""
  found = None
  for fs in traceback.extract_tb(tb):
    fn = fs.filename.replace("\\", "/")
    if "/tensorflow_lattice/" in fn and "/verif/" not in fn:
      found = "%s:%s" % (os.path.basename(fn), fs.name)
  return found


_USER_CODE_FRAME = re.compile(
    r'File "([^"]*/tensorflow_lattice/[^"]*)", line \d+, in (\w+)')


def _traced_lattice_frame(exc):
  """Library frame named in the MESSAGE of an exception raised while tracing.

  When Keras / tf.function trace a layer call (functional model, model.fit,
  tf.function with autograph) a library exception is re-raised with the
  original frames stripped from the traceback and quoted in the message
  instead ("in user code:  File ".../tensorflow_lattice/python/x.py", line n,
  in f").  The last such frame is returned as "x.py:f".
  """
  found = None
  for m in _USER_CODE_FRAME.finditer(str(exc)):
    fn = m.group(1).replace("\\", "/")
    if "/verif/" not in fn:
      found = "%s:%s" % (os.path.basename(fn), m.group(2))
  return found


_FUNCTION_NODE = re.compile(r"\{\{function_node ([^}]*)\}\}")
_NODE = re.compile(r"\{\{node ([^}]*)\}\}")


def _graph_execution_node(exc):
  """'graph:<node>' for an op error raised while EXECUTING a traced function.

  The modules trace (tf.function, Keras models, model.fit) nothing but library
  calls on inputs they built as valid; when an op of such a traced function
  fails at run time (e.g. a gather index out of range) the Python traceback
  holds no library frame at all - only TensorFlow's executor - and the message
  names the function node.  Such errors are attributed to the library; a
  harness mistake inside a traced wrapper would show on the unchanged tree.
  """
  mod = type(exc).__module__ or ""
  if not mod.startswith("tensorflow.python.framework.errors"):
    return None
  msg = str(exc)
  if not _FUNCTION_NODE.search(msg):
    return None
  m = _NODE.search(msg)
  return "graph:" + (m.group(1) if m else "function")


def safe_run(mod, case):
  """Runs mod.run_case(case); library exceptions become violations.

  An exception whose traceback passes through tensorflow_lattice code is
  attributed to the library on a case the generator built as valid (kind
  "exception"); anything else is a harness bug and re-raised as HarnessError.
  """
  try:
    out = mod.run_case(case)
    if not isinstance(out, Outcome):
      raise HarnessError("run_case returned %r" % (out,))
    return out
  except HarnessError:
    raise
  except (KeyboardInterrupt, SystemExit):
    raise
  except Exception as e:  # pylint: disable=broad-except
    where = (_lattice_frame(e.__traceback__) or _traced_lattice_frame(e) or
             _graph_execution_node(e))
    if where is None:
      raise HarnessError("harness exception on case %s:\n%s" %
                         (canonical(case)[:2000], traceback.format_exc()))
    out = Outcome()
    out.nontrivial = True
    out.label("exception")
    out.violate("%s: %s" % (type(e).__name__, str(e)[:300]),
                kind="exception", exc=type(e).__name__, where=where)
    return out


def _truncate(obj, max_list=24):
  """Copies a case for the samples section, shortening long arrays."""
  if isinstance(obj, dict):
    return {k: _truncate(v, max_list) for k, v in obj.items()}
  if isinstance(obj, (list, tuple)):
    if len(obj) > max_list:
      return [_truncate(v, max_list) for v in obj[:max_list]] + [
          "... (%d more)" % (len(obj) - max_list)]
    return [_truncate(v, max_list) for v in obj]
  if isinstance(obj, float):
    return float("%.6g" % obj) if math.isfinite(obj) else str(obj)
  return obj


class Stats(object):
  """Per-worker accumulator."""

  MAX_VIOL_PER_SIG = 6
  SAMPLES_PER_CLASS = 1
  MAX_SAMPLES = 12

  def __init__(self):
    self.evaluations = 0
    self.checks = 0
    self.nontrivial_hashes = set()
    self.classes = {}
    self.discards = {}
    self.samples = {}
    self.violations = []
    self._per_sig = {}
    self.t0 = time.time()

  def record(self, case, out):
    self.evaluations += 1
    self.checks += out.checks
    if out.discard:
      self.discards[out.discard] = self.discards.get(out.discard, 0) + 1
    for c in out.classes:
      self.classes[c] = self.classes.get(c, 0) + 1
    if out.nontrivial and not out.discard:
      self.nontrivial_hashes.add(case_hash(case))
      key = out.classes[0] if out.classes else "case"
      if (len(self.samples) < self.MAX_SAMPLES and
          len(self.samples.get(key, [])) < self.SAMPLES_PER_CLASS):
        self.samples.setdefault(key, []).append(_truncate(case))
    for v in out.violations:
      k = canonical(v["sig"])
      n = self._per_sig.get(k, 0)
      self._per_sig[k] = n + 1
      if n < self.MAX_VIOL_PER_SIG:
        self.violations.append({"sig": v["sig"], "msg": v["msg"], "case": case})

  def dump(self):
    return {
        "evaluations": self.evaluations,
        "checks": self.checks,
        "nontrivial_hashes": sorted(self.nontrivial_hashes),
        "classes": self.classes,
        "discards": self.discards,
        "samples": self.samples,
        "violations": self.violations,
        "violation_counts": self._per_sig,
        "wall_s": time.time() - self.t0,
    }


# --------------------------------------------------------------------------
def configure_tf():
  import tensorflow as tf  # pylint: disable=g-import-not-at-top
  try:
    tf.config.threading.set_intra_op_parallelism_threads(1)
    tf.config.threading.set_inter_op_parallelism_threads(1)
  except RuntimeError:
    pass
  import logging  # pylint: disable=g-import-not-at-top
  logging.getLogger("tensorflow").setLevel(logging.ERROR)
  try:
    from absl import logging as alog  # pylint: disable=g-import-not-at-top
    alog.set_verbosity(alog.ERROR)
  except Exception:  # pylint: disable=broad-except
    pass
  return tf


def sig_matches(sig, match):
  return all(sig.get(k) == v for k, v in match.items())


class _StopShrink(BaseException):
  pass


def run_search(mod, tier, hyp_seed, n_cases, shrink_match=None,
               shrink_budget=250):
  """Runs the Hypothesis search of one shard.

  collect mode (shrink_match None): violations never raise, so all n_cases run
  and every root cause is collected.  shrink mode: the first case with a
  violation matching shrink_match fails the test, Hypothesis shrinks it under
  an execution budget, the smallest failing case is returned.
  """
  import hypothesis  # pylint: disable=g-import-not-at-top
  from hypothesis import HealthCheck, Phase, given, settings  # pylint: disable=g-import-not-at-top

  stats = Stats()
  best = {"case": None, "size": None, "viol": None, "fails": 0}

  def judge(case, out):
    stats.record(case, out)
    if shrink_match is not None:
      hit = [v for v in out.violations if sig_matches(v["sig"], shrink_match)]
      if hit:
        best["fails"] += 1
        size = len(canonical(case))
        if best["size"] is None or size < best["size"]:
          best.update(case=case, size=size, viol=hit[0])
        if best["fails"] > shrink_budget:
          raise _StopShrink()
        raise AssertionError(hit[0]["msg"])

  phases = [Phase.generate] if shrink_match is None else [
      Phase.generate, Phase.shrink]
  sett = settings(
      max_examples=n_cases, database=None, deadline=None, derandomize=False,
      report_multiple_bugs=False, phases=phases,
      suppress_health_check=list(HealthCheck),
      stateful_step_count=getattr(mod, "STEP_COUNT", {}).get(tier, 10))

  try:
    if hasattr(mod, "machine"):
      from hypothesis.stateful import run_state_machine_as_test  # pylint: disable=g-import-not-at-top
      cls = mod.machine(tier, judge)
      cls = hypothesis.seed(hyp_seed)(cls)
      run_state_machine_as_test(cls, settings=sett)
    else:
      strat = mod.strategy(tier)

      @hypothesis.seed(hyp_seed)
      @sett
      @given(strat)
      def test(case):
        judge(case, safe_run(mod, case))

      test()
  except _StopShrink:
    pass
  except AssertionError:
    if shrink_match is None:
      raise
  res = stats.dump()
  res["shrunk"] = best if shrink_match is not None else None
  return res
