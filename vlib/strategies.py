"""Shared Hypothesis strategies.  All cases are JSON-serialisable dicts/lists.

Random arrays are materialised from a drawn integer seed by a private
numpy RandomState, so a case is a pure function of the drawn values and the
explicit arrays are stored in the case (exact replay).
"""
import math

import numpy as np
from hypothesis import strategies as st

SCALES = [1e-6, 1e-3, 1.0, 1.0, 1.0, 10.0, 1e3, 1e6]


def f32(x):
  """Rounds python floats / arrays to float32-representable python floats."""
  a = np.asarray(x, dtype=np.float32)
  if a.ndim == 0:
    return float(a)
  return a.astype(np.float64).tolist()


def f32_floats(lo, hi):
  return st.floats(min_value=lo, max_value=hi, allow_nan=False,
                   allow_infinity=False, width=32)


seeds = st.integers(0, 2**31 - 1)


def array_from(kind, seed, shape, scale):
  """Deterministic float32 array of a named kind; shape = (n, units)."""
  rs = np.random.RandomState(seed)
  n, units = shape
  if kind == "normal":
    a = rs.normal(size=shape)
  elif kind == "uniform":
    a = rs.uniform(-1, 1, size=shape)
  elif kind == "ints":
    a = rs.randint(-3, 4, size=shape).astype(np.float64)
  elif kind == "sorted":
    a = np.sort(rs.normal(size=shape), axis=0)
  elif kind == "antisorted":
    a = -np.sort(rs.normal(size=shape), axis=0)
  elif kind == "constant":
    a = np.ones(shape) * rs.normal(size=(1, units))
  elif kind == "spike":
    a = np.zeros(shape)
    for u in range(units):
      a[rs.randint(n), u] = rs.choice([-1.0, 1.0]) * (1 + rs.rand())
  elif kind == "zeros":
    a = np.zeros(shape)
  elif kind == "ties":
    a = rs.choice([-1.0, 0.0, 0.5, 1.0], size=shape)
  else:
    raise ValueError(kind)
  # Units differ from each other in scale so axis mistakes are visible.
  per_unit = np.array([1.0, 0.37, 2.9, 0.11][:units] + [1.0] * max(0, units - 4))
  return (a * per_unit[None, :] * scale).astype(np.float32)


ARRAY_KINDS = ["normal", "normal", "normal", "uniform", "ints", "sorted",
               "antisorted", "constant", "spike", "zeros", "ties"]


@st.composite
def array_desc(draw, kinds=None, scales=None, shape=None, max_abs=1e6):
  """Descriptor of a float32 array; small shapes are sometimes drawn explicitly.

  The descriptor (not the array) is stored in the case; materialize() turns it
  into the array deterministically (numpy's legacy RandomState stream is
  frozen), {"kind": "explicit", "values": [[...]]} carries literal values.
  """
  if shape is not None and shape[0] * shape[1] <= 24 and draw(
      st.integers(0, 3)) == 0:
    elem = st.one_of(f32_floats(-max_abs, max_abs), f32_floats(-2, 2),
                     st.sampled_from([0.0, 1.0, -1.0, 0.5]))
    vals = draw(st.lists(st.lists(elem, min_size=shape[1], max_size=shape[1]),
                         min_size=shape[0], max_size=shape[0]))
    return {"kind": "explicit", "values": vals}
  return {"kind": draw(st.sampled_from(kinds or ARRAY_KINDS)),
          "seed": draw(seeds),
          "scale": draw(st.sampled_from(scales or SCALES))}


def materialize(desc, shape):
  if desc["kind"] == "explicit":
    a = np.asarray(desc["values"], dtype=np.float32)
    return a.reshape(shape)
  return array_from(desc["kind"], desc["seed"], shape, desc["scale"])


@st.composite
def dag_pairs(draw, n, max_edges=6, allow_duplicates=True):
  """Acyclic set of (i, j) pairs over range(n): edges follow a random order."""
  if n < 2:
    return []
  order = draw(st.permutations(list(range(n))))
  k = draw(st.integers(0, max_edges))
  pairs = []
  for _ in range(k):
    a = draw(st.integers(0, n - 2))
    b = draw(st.integers(a + 1, n - 1))
    p = [order[a], order[b]]
    if p in pairs and not (allow_duplicates and draw(st.integers(0, 9)) == 0):
      continue
    pairs.append(p)
  return pairs


# --------------------------------------------------------------------------
# Linear layer configurations (valid by construction).
@st.composite
def linear_config(draw, max_dims=8, max_units=3, allow_zero_width=False,
                  dominances=True):
  dims = draw(st.integers(1, max_dims))
  units = draw(st.integers(1, max_units))
  mode = draw(st.sampled_from(["mixed", "mixed", "mixed", "all_inc", "none",
                               "all_dec", "wavg"]))
  if mode == "wavg":
    mono = [1] * dims
  elif mode == "mixed":
    mono = [draw(st.sampled_from([-1, 0, 1, 1])) for _ in range(dims)]
  else:
    mono = [{"all_inc": 1, "none": 0, "all_dec": -1}[mode]] * dims
  bmode = draw(st.sampled_from(["none", "some", "all"]))
  input_min, input_max = [], []
  for _ in range(dims):
    has_lo = bmode == "all" or (bmode == "some" and draw(st.booleans()))
    has_hi = bmode == "all" or (bmode == "some" and draw(st.booleans()))
    lo = f32(draw(st.sampled_from([-100.0, -1.0, 0.0, 0.5, 3.0])))
    width = f32(draw(st.sampled_from(
        ([0.0] if allow_zero_width else []) + [0.25, 1.0, 2.0, 10.0, 1000.0])))
    input_min.append(lo if has_lo else None)
    input_max.append(f32(lo + width) if has_hi else None)
  mono_dom, range_dom = [], []
  if dominances and dims >= 2:
    inc = [i for i in range(dims) if mono[i] == 1]
    if len(inc) >= 2 and draw(st.booleans()):
      sub = draw(dag_pairs(len(inc), max_edges=4))
      mono_dom = [[inc[a], inc[b]] for a, b in sub]
    used = set(i for p in mono_dom for i in p)
    for sign in (1, -1):
      cand = [i for i in range(dims) if mono[i] == sign and i not in used and
              input_min[i] is not None and input_max[i] is not None]
      if len(cand) >= 2 and draw(st.booleans()):
        sub = draw(dag_pairs(len(cand), max_edges=3))
        range_dom += [[cand[a], cand[b]] for a, b in sub]
  norm = 1 if mode == "wavg" else draw(st.sampled_from([None, None, 1, 2]))
  return {"dims": dims, "units": units, "mono": mono, "input_min": input_min,
          "input_max": input_max, "mono_dom": mono_dom, "range_dom": range_dom,
          "norm": norm, "use_bias": draw(st.booleans())}


def linear_kwargs(cfg):
  """kwargs for tfl.layers.Linear / LinearConstraints from a config dict."""
  kw = dict(monotonicities=list(cfg["mono"]))
  if any(v is not None for v in cfg["input_min"]):
    kw["input_min"] = list(cfg["input_min"])
  if any(v is not None for v in cfg["input_max"]):
    kw["input_max"] = list(cfg["input_max"])
  if cfg["mono_dom"]:
    kw["monotonic_dominances"] = [tuple(p) for p in cfg["mono_dom"]]
  if cfg["range_dom"]:
    kw["range_dominances"] = [tuple(p) for p in cfg["range_dom"]]
  if cfg["norm"]:
    kw["normalization_order"] = cfg["norm"]
  return kw


# --------------------------------------------------------------------------
# Lattice shapes and constraint configurations (valid by construction).
@st.composite
def lattice_sizes(draw, max_rank=4, max_size=4, max_weights=256, min_rank=1):
  kind = draw(st.sampled_from(["all2", "mixed", "mixed", "runs", "two_after"]))
  rank = draw(st.integers(min_rank, max_rank))
  if kind == "all2":
    sizes = [2] * rank
  elif kind == "runs":
    a = draw(st.integers(2, max_size))
    b = draw(st.integers(2, max_size))
    cut = draw(st.integers(0, rank))
    sizes = [a] * cut + [b] * (rank - cut)
  elif kind == "two_after":
    sizes = [draw(st.integers(3, max(3, max_size))) for _ in range(rank)]
    sizes[-1] = 2
  else:
    sizes = [draw(st.integers(2, max_size)) for _ in range(rank)]
  while int(np.prod(sizes)) > max_weights:
    i = int(np.argmax(sizes))
    if sizes[i] > 2:
      sizes[i] -= 1
    else:
      sizes = sizes[:-1]
  return sizes


@st.composite
def lattice_config(draw, sizes, approx=True, trusts=True, bounds=True,
                   unimod=True, max_trusts=3):
  """Valid Lattice constraint configuration for the given sizes."""
  n = len(sizes)
  mmode = draw(st.sampled_from(["all", "some", "some", "none"]))
  mono = [1 if mmode == "all" else 0 if mmode == "none" else
          draw(st.integers(0, 1)) for _ in range(n)]
  cfg = {"sizes": list(sizes), "mono": mono, "unimod": [0] * n, "ew": [],
         "tz": [], "mdom": [], "rdom": [], "jmono": [], "junimod": [],
         "omin": None, "omax": None}
  mono_dims = [i for i in range(n) if mono[i] == 1]
  if trusts and mono_dims and n >= 2 and draw(st.integers(0, 2)) > 0:
    # roles: a dimension is main, conditional or neither - never both.
    mains = []
    for d in mono_dims:
      if draw(st.booleans()):
        mains.append(d)
    if not mains:
      mains = [mono_dims[0]]
    conds = [d for d in range(n) if d not in mains]
    if conds:
      pairs = {}
      for _ in range(draw(st.integers(1, max_trusts))):
        m = draw(st.sampled_from(mains))
        c = draw(st.sampled_from(conds))
        dr = pairs.get((m, c)) or draw(st.sampled_from([-1, 1]))
        pairs[(m, c)] = dr
        kind = draw(st.sampled_from(["ew", "tz", "both"]))
        if kind in ("ew", "both"):
          cfg["ew"].append([m, c, dr])
        if kind in ("tz", "both"):
          cfg["tz"].append([m, c, dr])
  if unimod and approx:
    for d in range(n):
      if mono[d] == 0 and sizes[d] >= 3 and draw(st.integers(0, 3)) == 0:
        cfg["unimod"][d] = draw(st.sampled_from([-1, 1]))
  if approx and len(mono_dims) >= 2:
    for fam in ("mdom", "rdom"):
      if draw(st.integers(0, 3)) == 0:
        sub = draw(dag_pairs(len(mono_dims), max_edges=2,
                             allow_duplicates=False))
        cfg[fam] = [[mono_dims[a], mono_dims[b]] for a, b in sub]
  if approx and n >= 2 and draw(st.integers(0, 3)) == 0:
    for _ in range(draw(st.integers(1, 2))):
      a = draw(st.integers(0, n - 1))
      b = draw(st.integers(0, n - 2))
      b = b if b < a else b + 1
      if [a, b] not in cfg["jmono"]:
        cfg["jmono"].append([a, b])
  if approx and unimod and draw(st.integers(0, 4)) == 0:
    cand = [d for d in range(n) if mono[d] == 0 and sizes[d] >= 3]
    if cand:
      k = draw(st.integers(1, min(2, len(cand))))
      dims = draw(st.permutations(cand))[:k]
      cfg["junimod"].append([list(dims),
                             draw(st.sampled_from(["valley", "peak"]))])
  if bounds:
    bm = draw(st.sampled_from(["none", "min", "max", "both", "both"]))
    lo = f32(draw(st.sampled_from([-10.0, -1.0, 0.0, 0.5, 100.0])))
    width = f32(draw(st.sampled_from([0.5, 1.0, 3.0, 1000.0])))
    if bm in ("min", "both"):
      cfg["omin"] = lo
    if bm in ("max", "both"):
      cfg["omax"] = f32(lo + width)
  return cfg


def lattice_kwargs(cfg, spell=None):
  """kwargs for tfl Lattice / LatticeConstraints (canonical spelling)."""
  kw = {"lattice_sizes": list(cfg["sizes"]),
        "monotonicities": list(cfg["mono"])}
  if any(cfg.get("unimod") or []):
    kw["unimodalities"] = list(cfg["unimod"])
  for key, name in (("ew", "edgeworth_trusts"), ("tz", "trapezoid_trusts"),
                    ("mdom", "monotonic_dominances"),
                    ("rdom", "range_dominances"),
                    ("jmono", "joint_monotonicities")):
    if cfg.get(key):
      kw[name] = [tuple(t) for t in cfg[key]]
  if cfg.get("junimod"):
    kw["joint_unimodalities"] = [(tuple(d), s) for d, s in cfg["junimod"]]
  kw["output_min"] = cfg.get("omin")
  kw["output_max"] = cfg.get("omax")
  return kw


# --------------------------------------------------------------------------
# PWL calibration configurations (valid by construction).
SPACINGS = [1e-2, 0.5, 1.0, 1.0, 3.0, 100.0]
# with gaps far below 1e-3 (neighbouring quantile keypoints); used where the
# property quantifies over "any positive keypoint spacing" (C04).
SPACINGS_FINE = [2e-4, 1e-3, 1e-2, 0.5, 1.0, 1.0, 3.0, 100.0]


@st.composite
def pwl_keypoints(draw, min_k=2, max_k=8, spacings=None):
  spacings = spacings or SPACINGS
  k = draw(st.integers(min_k, max_k))
  start = draw(st.sampled_from([-100.0, -1.0, 0.0, 0.5, 10.0]))
  if draw(st.booleans()):
    gap = draw(st.sampled_from(spacings))
    gaps = [gap] * (k - 1)
  else:
    gaps = [draw(st.sampled_from(spacings)) for _ in range(k - 1)]
  kp = [start]
  for g in gaps:
    kp.append(kp[-1] + g)
  kp = f32(kp)
  # float32 rounding must keep them strictly increasing.
  for i in range(1, len(kp)):
    if kp[i] <= kp[i - 1]:
      kp[i] = float(np.nextafter(np.float32(kp[i - 1]), np.float32(np.inf)))
  return kp


@st.composite
def pwl_config(draw, max_k=8, max_units=3, allow_cyclic=True,
               iters=(0, 1, 2, 8, 30), spacings=None):
  """Valid PWLCalibration constraint configuration."""
  kp = draw(pwl_keypoints(max_k=max_k, spacings=spacings))
  mono = draw(st.sampled_from([-1, 0, 1, 1]))
  conv = draw(st.sampled_from([0, 0, -1, 1]))
  cyclic = False
  if allow_cyclic and len(kp) >= 3 and draw(st.integers(0, 5)) == 0:
    cyclic, mono, conv = True, 0, 0
  bm = draw(st.sampled_from(["none", "min", "max", "both", "both"]))
  lo = f32(draw(st.sampled_from([-10.0, -1.0, 0.0, 0.5, 100.0])))
  width = f32(draw(st.sampled_from([0.0, 0.5, 1.0, 3.0, 1000.0])))
  omin = lo if bm in ("min", "both") else None
  omax = f32(lo + width) if bm in ("max", "both") else None
  clamp_min = bool(mono != 0 and omin is not None and draw(st.booleans()))
  clamp_max = bool(mono != 0 and omax is not None and draw(st.booleans()))
  return {"keypoints": kp, "units": draw(st.integers(1, max_units)),
          "mono": mono, "conv": conv, "cyclic": cyclic, "omin": omin,
          "omax": omax, "clamp_min": clamp_min, "clamp_max": clamp_max,
          "iters": draw(st.sampled_from(list(iters)))}


def pwl_layer_kwargs(cfg):
  return dict(input_keypoints=list(cfg["keypoints"]), units=cfg["units"],
              output_min=cfg["omin"], output_max=cfg["omax"],
              clamp_min=cfg["clamp_min"], clamp_max=cfg["clamp_max"],
              monotonicity=cfg["mono"], convexity=cfg["conv"],
              is_cyclic=cfg["cyclic"],
              num_projection_iterations=cfg["iters"])
