"""float64 numpy reference models, written from the documentation.

Nothing here imports or copies tensorflow_lattice code.  Conventions:
a lattice kernel of shape (prod(sizes), units) is, per unit, a C-order
(row-major, last dimension fastest) array of shape `sizes`.

A lattice constraint configuration ("lcfg") is a JSON dict:
  sizes, mono [0/1], unimod [-1/0/1], ew / tz [[main, cond, dir]],
  mdom / rdom [[dominant, weak]], jmono [[d1, d2]],
  junimod [[[dims...], "valley"|"peak"]], omin, omax (float or None)
"""
import itertools

import numpy as np

# ------------------------------------------------------------------------
# R-interp


def interp_hypercube(x, kernel, sizes):
  """Multilinear interpolation; x (..., d) float64, kernel (prod(sizes),)."""
  sizes = list(sizes)
  d = len(sizes)
  x = np.asarray(x, np.float64)
  k = np.asarray(kernel, np.float64).reshape(sizes)
  flat = x.reshape(-1, d)
  out = np.zeros(flat.shape[0])
  for n, p in enumerate(flat):
    p = np.minimum(np.maximum(p, 0.0), np.array(sizes) - 1.0)
    lo = np.minimum(np.floor(p).astype(int), np.array(sizes) - 2)
    fr = p - lo
    acc = 0.0
    for corner in itertools.product((0, 1), repeat=d):
      w = 1.0
      for j, c in enumerate(corner):
        w *= fr[j] if c else (1.0 - fr[j])
      if w != 0.0:
        acc += w * k[tuple(lo + np.array(corner))]
    out[n] = acc
  return out.reshape(x.shape[:-1])


def interp_simplex(x, kernel, sizes):
  """Sorted-simplex (Lovasz-extension) interpolation inside the cell."""
  sizes = list(sizes)
  d = len(sizes)
  x = np.asarray(x, np.float64)
  k = np.asarray(kernel, np.float64).reshape(sizes)
  flat = x.reshape(-1, d)
  out = np.zeros(flat.shape[0])
  for n, p in enumerate(flat):
    p = np.minimum(np.maximum(p, 0.0), np.array(sizes) - 1.0)
    lo = np.minimum(np.floor(p).astype(int), np.array(sizes) - 2)
    fr = p - lo
    order = sorted(range(d), key=lambda j: -fr[j])
    v = lo.copy()
    prev = 1.0
    acc = 0.0
    for j in order:
      acc += (prev - fr[j]) * k[tuple(v)]
      prev = fr[j]
      v = v.copy()
      v[j] += 1
    acc += prev * k[tuple(v)]
    out[n] = acc
  return out.reshape(x.shape[:-1])


def cell_corner_values(p, kernel, sizes):
  sizes = list(sizes)
  d = len(sizes)
  k = np.asarray(kernel, np.float64).reshape(sizes)
  p = np.minimum(np.maximum(np.asarray(p, np.float64), 0.0),
                 np.array(sizes) - 1.0)
  lo = np.minimum(np.floor(p).astype(int), np.array(sizes) - 2)
  return [k[tuple(lo + np.array(c))]
          for c in itertools.product((0, 1), repeat=d)]


# ------------------------------------------------------------------------
# R-cons: constraint rows  (row . w >= 0  means satisfied)

FAMILIES = ["mono", "unimod", "ew", "tz", "mdom", "rdom", "jmono", "junimod"]


def _flat(sizes):
  strides = [1] * len(sizes)
  for i in range(len(sizes) - 2, -1, -1):
    strides[i] = strides[i + 1] * sizes[i + 1]

  def f(idx):
    return int(sum(a * b for a, b in zip(idx, strides)))
  return f


def _others(sizes, dims):
  rng = [range(s) if i not in dims else [None] for i, s in enumerate(sizes)]
  return itertools.product(*rng)


def _put(base, assign):
  v = list(base)
  for d, val in assign.items():
    v[d] = val
  return v


def constraint_rows(lcfg, families=None):
  """Returns list of (family, tag, {flat_index: coef}) with row.w >= 0."""
  sizes = list(lcfg["sizes"])
  n = len(sizes)
  flat = _flat(sizes)
  fams = set(families or FAMILIES)
  rows = []

  def add(fam, tag, terms):
    r = {}
    for idx, c in terms:
      k = flat(idx)
      r[k] = r.get(k, 0.0) + c
    rows.append((fam, tag, r))

  mono = lcfg.get("mono") or [0] * n
  if "mono" in fams:
    for d in range(n):
      if mono[d] != 1:
        continue
      for base in _others(sizes, [d]):
        for i in range(sizes[d] - 1):
          add("mono", (d,), [(_put(base, {d: i + 1}), 1.0),
                             (_put(base, {d: i}), -1.0)])
  unimod = lcfg.get("unimod") or [0] * n
  if "unimod" in fams:
    for d in range(n):
      if unimod[d] == 0:
        continue
      for base in _others(sizes, [d]):
        for i in range(sizes[d] - 1):
          first = i < sizes[d] // 2
          # valley (1): decreasing in the first part, increasing afterwards.
          inc = (unimod[d] == 1) != first
          s = 1.0 if inc else -1.0
          add("unimod", (d,), [(_put(base, {d: i + 1}), s),
                               (_put(base, {d: i}), -s)])
  if "ew" in fams:
    for m, c, dr in lcfg.get("ew") or []:
      for base in _others(sizes, [m, c]):
        for i in range(sizes[m] - 1):
          for j in range(sizes[c] - 1):
            s = float(dr)
            add("ew", (m, c, dr), [
                (_put(base, {m: i + 1, c: j + 1}), s),
                (_put(base, {m: i, c: j + 1}), -s),
                (_put(base, {m: i + 1, c: j}), -s),
                (_put(base, {m: i, c: j}), s)])
  if "tz" in fams:
    for m, c, dr in lcfg.get("tz") or []:
      top = sizes[m] - 1
      for base in _others(sizes, [m, c]):
        for j in range(sizes[c] - 1):
          s = float(dr)
          add("tz", (m, c, dr), [(_put(base, {m: 0, c: j}), s),
                                 (_put(base, {m: 0, c: j + 1}), -s)])
          add("tz", (m, c, dr), [(_put(base, {m: top, c: j + 1}), s),
                                 (_put(base, {m: top, c: j}), -s)])
  if "mdom" in fams:
    for a, b in lcfg.get("mdom") or []:
      for base in _others(sizes, [a, b]):
        for i in range(sizes[a] - 1):
          for j in range(sizes[b] - 1):
            add("mdom", (a, b), [(_put(base, {a: i + 1, b: j}), 1.0),
                                 (_put(base, {a: i + 1, b: j + 1}), -0.5),
                                 (_put(base, {a: i, b: j}), -0.5)])
            add("mdom", (a, b), [(_put(base, {a: i + 1, b: j + 1}), 0.5),
                                 (_put(base, {a: i, b: j}), 0.5),
                                 (_put(base, {a: i, b: j + 1}), -1.0)])
  if "rdom" in fams:
    for a, b in lcfg.get("rdom") or []:
      ta, tb = sizes[a] - 1, sizes[b] - 1
      for base in _others(sizes, [a, b]):
        for i in range(sizes[a]):
          for j in range(sizes[b]):
            add("rdom", (a, b), [(_put(base, {a: ta, b: j}), 1.0),
                                 (_put(base, {a: 0, b: j}), -1.0),
                                 (_put(base, {a: i, b: tb}), -1.0),
                                 (_put(base, {a: i, b: 0}), 1.0)])
  if "jmono" in fams:
    for a, b in lcfg.get("jmono") or []:
      for base in _others(sizes, [a, b]):
        for i in range(sizes[a] - 1):
          for j in range(sizes[b] - 1):
            add("jmono", (a, b), [(_put(base, {a: i + 1, b: j + 1}), 1.0),
                                  (_put(base, {a: i + 1, b: j}), -0.5),
                                  (_put(base, {a: i, b: j + 1}), -0.5)])
            add("jmono", (a, b), [(_put(base, {a: i + 1, b: j}), 0.5),
                                  (_put(base, {a: i, b: j + 1}), 0.5),
                                  (_put(base, {a: i, b: j}), -1.0)])
  if "junimod" in fams:
    for dims, direction in lcfg.get("junimod") or []:
      dims = list(dims)
      center = [sizes[d] // 2 for d in dims]
      sgn = 1.0 if direction == "valley" else -1.0
      seen = set()
      for base in _others(sizes, dims):
        for vertex in itertools.product(*[range(sizes[d]) for d in dims]):
          if list(vertex) == center:
            continue
          for offs in itertools.product((-1, 1), repeat=len(dims)):
            terms = []
            tot = 0.0
            ok = True
            key = []
            for q, d in enumerate(dims):
              wgt = vertex[q] - center[q]
              if wgt == 0:
                continue
              nb = vertex[q] + offs[q]
              if nb < 0 or nb >= sizes[d]:
                ok = False
                break
              assign = {dd: vv for dd, vv in zip(dims, vertex)}
              assign[d] = nb
              coef = float(wgt * offs[q])
              terms.append((_put(base, assign), sgn * coef))
              tot += coef
              key.append((q, offs[q]))
            if not ok or not terms:
              continue
            k2 = (tuple(base), vertex, tuple(key))
            if k2 in seen:
              continue
            seen.add(k2)
            terms.append((_put(base, dict(zip(dims, vertex))), -sgn * tot))
            add("junimod", (tuple(dims), direction), terms)
  return rows


def rows_matrix(rows, n):
  a = np.zeros((len(rows), n))
  for i, (_, _, r) in enumerate(rows):
    for k, c in r.items():
      a[i, k] = c
  return a


def violation_by_family(lcfg, w, families=None):
  """Per family max violation (>= 0) of a single-unit kernel w (float64)."""
  w = np.asarray(w, np.float64).reshape(-1)
  res = {}
  for fam, _, r in constraint_rows(lcfg, families):
    v = -sum(c * w[k] for k, c in r.items())
    if v > res.get(fam, 0.0):
      res[fam] = v
    else:
      res.setdefault(fam, 0.0)
  if lcfg.get("omin") is not None:
    res["bounds"] = max(res.get("bounds", 0.0), float(lcfg["omin"] - w.min()))
  if lcfg.get("omax") is not None:
    res["bounds"] = max(res.get("bounds", 0.0), float(w.max() - lcfg["omax"]))
  if "bounds" in res:
    res["bounds"] = max(res["bounds"], 0.0)
  return res


def measures_by_slicing(lcfg, w):
  """Independent implementation of the violation measures by array slicing.

  Used by the self-test to cross-check constraint_rows (mono, unimod, ew, tz,
  mdom, rdom, jmono); returns the same dict shape as violation_by_family.
  """
  sizes = list(lcfg["sizes"])
  n = len(sizes)
  k = np.asarray(w, np.float64).reshape(sizes)
  res = {}

  def upd(fam, arr):
    v = float(np.max(-arr)) if arr.size else 0.0
    res[fam] = max(res.get(fam, 0.0), v, 0.0)

  def tk(arr, d, i):
    return np.take(arr, i, axis=d)

  mono = lcfg.get("mono") or [0] * n
  for d in range(n):
    if mono[d] == 1:
      upd("mono", np.diff(k, axis=d))
  unimod = lcfg.get("unimod") or [0] * n
  for d in range(n):
    if unimod[d] != 0:
      df = np.moveaxis(np.diff(k, axis=d), d, 0)
      h = sizes[d] // 2
      s = float(unimod[d])
      upd("unimod", -s * df[:h])
      upd("unimod", s * df[h:])
  for m, c, dr in lcfg.get("ew") or []:
    dm = np.diff(k, axis=m)
    upd("ew", dr * np.diff(dm, axis=c))
  for m, c, dr in lcfg.get("tz") or []:
    upd("tz", -dr * np.diff(tk(k, m, 0), axis=c - (1 if c > m else 0)))
    upd("tz", dr * np.diff(tk(k, m, sizes[m] - 1), axis=c - (1 if c > m else 0)))
  for a, b in lcfg.get("mdom") or []:
    kk = np.moveaxis(k, [a, b], [0, 1])
    mid = (kk[1:, 1:] + kk[:-1, :-1]) / 2
    upd("mdom", kk[1:, :-1] - mid)
    upd("mdom", mid - kk[:-1, 1:])
  for a, b in lcfg.get("rdom") or []:
    kk = np.moveaxis(k, [a, b], [0, 1])
    dom = kk[-1] - kk[0]          # (B, rest)
    weak = kk[:, -1] - kk[:, 0]   # (A, rest)
    upd("rdom", dom[None, :, ...] - weak[:, None, ...])
  for a, b in lcfg.get("jmono") or []:
    kk = np.moveaxis(k, [a, b], [0, 1])
    mid = (kk[1:, :-1] + kk[:-1, 1:]) / 2
    upd("jmono", kk[1:, 1:] - mid)
    upd("jmono", mid - kk[:-1, :-1])
  return res


# ------------------------------------------------------------------------
# R-qp: certified Euclidean projections


def project_cone(a, w0, tol=1e-8):
  """argmin ||w - w0|| s.t. a w >= 0, via Moreau decomposition + NNLS.

  Returns (w, info) ; info["certified"] tells whether the KKT conditions hold.
  """
  from scipy.optimize import nnls  # pylint: disable=g-import-not-at-top
  w0 = np.asarray(w0, np.float64)
  if a.shape[0] == 0:
    return w0.copy(), {"certified": True, "kkt": 0.0}
  s = max(1.0, float(np.max(np.abs(w0))))
  try:
    lam, _ = nnls(a.T, -w0 / s, maxiter=50 * a.shape[0] + 1000)
  except RuntimeError:
    return w0.copy(), {"certified": False, "kkt": np.inf}
  lam = lam * s
  w = w0 + a.T @ lam
  slack = a @ w
  feas = max(0.0, float(np.max(-slack)))
  comp = float(np.max(np.abs(lam * slack))) if lam.size else 0.0
  kkt = max(feas / s, comp / (s * s))
  return w, {"certified": bool(kkt < tol), "kkt": kkt, "lam": lam}


def project_polyhedron(g, h, w0, tol=1e-8):
  """argmin ||w - w0|| s.t. g w >= h (Lawson-Hanson LDP through NNLS)."""
  from scipy.optimize import nnls  # pylint: disable=g-import-not-at-top
  w0 = np.asarray(w0, np.float64)
  if g.shape[0] == 0:
    return w0.copy(), {"certified": True, "kkt": 0.0}
  s = max(1.0, float(np.max(np.abs(w0))), float(np.max(np.abs(h))))
  hh = (h - g @ w0) / s
  n = w0.size
  e = np.vstack([g.T, hh[None, :]])
  f = np.zeros(n + 1)
  f[n] = 1.0
  try:
    u, _ = nnls(e, f, maxiter=50 * g.shape[0] + 1000)
  except RuntimeError:
    return w0.copy(), {"certified": False, "kkt": np.inf}
  r = e @ u - f
  if abs(r[n]) < 1e-14:
    # h - g w0 <= 0 everywhere (w0 feasible) or infeasible system.
    if np.all(hh <= 1e-12):
      return w0.copy(), {"certified": True, "kkt": 0.0}
    return w0.copy(), {"certified": False, "kkt": np.inf}
  x = -r[:n] / r[n]
  w = w0 + s * x
  lam = u / (-r[n]) * s
  slack = g @ w - h
  feas = max(0.0, float(np.max(-slack)))
  comp = float(np.max(np.abs(lam * slack)))
  stat = float(np.max(np.abs((w - w0) - g.T @ lam)))
  kkt = max(feas / s, comp / (s * s), stat / s)
  return w, {"certified": bool(kkt < tol), "kkt": kkt}


def lattice_nearest(lcfg, w0, families=None, with_bounds=False):
  """Certified nearest feasible kernel for one unit."""
  w0 = np.asarray(w0, np.float64).reshape(-1)
  rows = constraint_rows(lcfg, families)
  a = rows_matrix(rows, w0.size)
  if with_bounds and (lcfg.get("omin") is not None or
                      lcfg.get("omax") is not None):
    g = [a]
    h = [np.zeros(a.shape[0])]
    if lcfg.get("omin") is not None:
      g.append(np.eye(w0.size))
      h.append(np.full(w0.size, float(lcfg["omin"])))
    if lcfg.get("omax") is not None:
      g.append(-np.eye(w0.size))
      h.append(np.full(w0.size, -float(lcfg["omax"])))
    return project_polyhedron(np.vstack(g), np.concatenate(h), w0)
  return project_cone(a, w0)


# ------------------------------------------------------------------------
# R-pwl


def pwl_eval(x, keypoints, outputs):
  """Piecewise-linear through (keypoints, outputs), constant outside."""
  return np.interp(np.asarray(x, np.float64), np.asarray(keypoints, np.float64),
                   np.asarray(outputs, np.float64))


# ------------------------------------------------------------------------
# R-kfl


def kfl_dense_kernel(kernel, scale, bias, sizes_each, dims, units, terms):
  """Dense lattice kernel of a KroneckerFactoredLattice.

  kernel: (1, size, units*dims, terms) ; scale (units, terms) ; bias (units,)
  Returns array (size**dims, units), C-order over dims.
  """
  k = np.asarray(kernel, np.float64).reshape(sizes_each, units, dims, terms)
  scale = np.asarray(scale, np.float64).reshape(units, terms)
  bias = np.asarray(bias, np.float64).reshape(units)
  out = np.zeros([sizes_each] * dims + [units])
  for u in range(units):
    acc = np.zeros([sizes_each] * dims)
    for t in range(terms):
      outer = np.ones([1] * dims)
      for d in range(dims):
        shape = [1] * dims
        shape[d] = sizes_each
        outer = outer * k[:, u, d, t].reshape(shape)
      acc += scale[u, t] * outer
    out[..., u] = acc / terms + bias[u]
  return out.reshape(-1, units)


# ------------------------------------------------------------------------
def selftest():
  """Cross-checks constraint_rows against measures_by_slicing, the projections
  against brute facts, and the two interpolation references on vertices."""
  rs = np.random.RandomState(7)
  cfgs = [
      {"sizes": [2, 3], "mono": [1, 1], "ew": [[0, 1, 1]], "tz": [[0, 1, -1]]},
      {"sizes": [3, 2, 4], "mono": [1, 0, 1], "unimod": [0, 0, 0],
       "mdom": [[0, 2]], "rdom": [[2, 0]], "jmono": [[1, 2]],
       "ew": [[2, 1, -1]], "tz": [[0, 1, 1]]},
      {"sizes": [4, 3, 5], "mono": [0, 1, 0], "unimod": [1, 0, -1],
       "jmono": [[0, 2], [2, 1]], "tz": [[1, 2, 1]], "ew": [[1, 0, 1]]},
  ]
  for cfg in cfgs:
    n = int(np.prod(cfg["sizes"]))
    for _ in range(20):
      w = rs.normal(size=n)
      a = violation_by_family(cfg, w)
      b = measures_by_slicing(cfg, w)
      for fam, v in b.items():
        if abs(a.get(fam, 0.0) - v) > 1e-12:
          print("selftest: R-cons disagreement", cfg, fam, a.get(fam), v)
          return 2
      wp, info = lattice_nearest(cfg, w)
      if not info["certified"]:
        print("selftest: projection not certified", cfg, info)
        return 2
      if max(violation_by_family(cfg, wp).values()) > 1e-9:
        print("selftest: projected point infeasible")
        return 2
      # optimality sanity: no feasible random perturbation is closer.
      for _ in range(5):
        z, _ = lattice_nearest(cfg, wp + 0.1 * rs.normal(size=n))
        if np.linalg.norm(z - w) < np.linalg.norm(wp - w) - 1e-9:
          print("selftest: projection not nearest")
          return 2
  # polyhedron with bounds
  cfg = {"sizes": [3, 3], "mono": [1, 1], "omin": -0.5, "omax": 0.7}
  for _ in range(20):
    w = rs.normal(size=9) * 2
    wp, info = lattice_nearest(cfg, w, with_bounds=True)
    if not info["certified"] or max(violation_by_family(cfg, wp).values()) > 1e-9:
      print("selftest: LDP failed", info)
      return 2
  # junimod rows: a separable convex bowl centred at the centre satisfies valley.
  cfg = {"sizes": [3, 5, 2], "junimod": [[[0, 1], "valley"]]}
  g = np.indices([3, 5, 2]).astype(float)
  bowl = (g[0] - 1) ** 2 + (g[1] - 2) ** 2 + 0.3 * g[2]
  if violation_by_family(cfg, bowl)["junimod"] > 1e-12:
    print("selftest: junimod rows reject a bowl")
    return 2
  if violation_by_family(cfg, -bowl)["junimod"] <= 0:
    print("selftest: junimod rows accept an inverted bowl")
    return 2
  # interpolation references agree on vertices and axis-parallel edges
  sizes = [3, 2, 4]
  k = rs.normal(size=24)
  kk = k.reshape(sizes)
  for v in itertools.product(*[range(s) for s in sizes]):
    for f in (interp_hypercube, interp_simplex):
      if abs(f(np.array(v, float), k, sizes) - kk[v]) > 1e-12:
        print("selftest: interpolation reference misses a vertex")
        return 2
  p = np.array([1.25, 1.0, 2.0])
  if abs(interp_hypercube(p, k, sizes) - interp_simplex(p, k, sizes)) > 1e-12:
    print("selftest: references disagree on an edge")
    return 2
  print("selftest ok")
  return 0
