"""Oracle self-tests run by setup (exit non-zero on disagreement)."""
import sys


def main():
  try:
    from vlib import oracles
  except ImportError:
    print("selftest: no oracles module yet")
    return 0
  return oracles.selftest()


if __name__ == "__main__":
  sys.exit(main())
