"""Generated premade / hand-assembled model descriptions (valid by construction).

A description is a JSON dict; build_model() turns it into the real tfl model.
Used by C03 (training histories) and C11 (save/restore histories).
"""
import numpy as np
from hypothesis import strategies as st

from vlib import strategies as S

KINDS = ["linear", "lattice", "lattice", "ensemble_explicit", "ensemble_random",
         "ensemble_rtl", "ensemble_rtl", "stack_lattice", "stack_linear",
         "stack_rtl2"]


@st.composite
def feature_desc(draw, idx, lattice_size, allow_categorical=True):
  name = "f%d" % idx
  if allow_categorical and draw(st.integers(0, 9)) < 3:
    nb = draw(st.integers(2, 5))
    if nb >= 3 and draw(st.integers(0, 3)) == 0:
      # Dense order: (a subset of) all pairs of a random total order, listed
      # in a random order, so that transitively implied "shortcut" pairs come
      # before, between or after the chains they shortcut.
      order = draw(st.permutations(list(range(nb))))
      full = [[order[a], order[b]] for a in range(nb) for b in range(a + 1, nb)]
      full = draw(st.permutations(full))
      keep = draw(st.lists(st.integers(0, 4), min_size=len(full),
                           max_size=len(full)))
      pairs = [p for p, k in zip(full, keep) if k > 0]
    else:
      pairs = draw(S.dag_pairs(nb, max_edges=4, allow_duplicates=False))
    if not pairs and draw(st.integers(0, 3)) > 0:
      a = draw(st.integers(0, nb - 1))
      b = draw(st.integers(0, nb - 2))
      pairs = [[a, b if b < a else b + 1]]
    return {"name": name, "type": "categorical", "num_buckets": nb,
            "pairs": pairs, "lattice_size": lattice_size,
            "default": draw(st.sampled_from([None, None, -1]))}
  k = draw(st.integers(2, 5))
  kp = draw(S.pwl_keypoints(min_k=k, max_k=k))
  mono = draw(st.sampled_from([1, 1, -1, 0]))
  return {"name": name, "type": "numeric", "mono": mono,
          "lattice_size": lattice_size, "keypoints": kp,
          "default": draw(st.sampled_from([None, None, None, -1000.0])),
          "clamp_min": bool(mono != 0 and draw(st.integers(0, 3)) == 0),
          "clamp_max": bool(mono != 0 and draw(st.integers(0, 3)) == 0),
          # convexity together with monotonicity is finding F-C04-1's region.
          "convexity": draw(st.sampled_from([0, 0, 0, 1, -1])) if mono == 0
                       else 0,
          "kp_type": draw(st.sampled_from(["fixed", "fixed", "fixed",
                                           "learned_interior"]))}


@st.composite
def model_desc(draw, tier="quick", kinds=None):
  kind = draw(st.sampled_from(kinds or KINDS))
  big = tier == "thorough"
  nf = draw(st.integers(1 if kind in ("linear", "lattice", "stack_lattice",
                                      "stack_linear") else 2,
                        4 if not big else 6))
  same_size = kind in ("ensemble_rtl", "stack_rtl2") or draw(st.booleans())
  param = "all_vertices"
  if kind in ("lattice", "ensemble_explicit", "ensemble_random",
              "ensemble_rtl") and draw(st.integers(0, 3)) == 0:
    param = "kronecker_factored"
    same_size = True
  base_size = draw(st.integers(2, 3))
  feats = []
  for i in range(nf):
    ls = base_size if same_size else draw(st.integers(2, 3))
    f = draw(feature_desc(i, ls, allow_categorical=kind != "stack_rtl2"))
    if f["type"] == "numeric" and f["convexity"] != 0:
      f["kp_type"] = "fixed"
    feats.append(f)
  desc = {"kind": kind, "features": feats, "parameterization": param,
          "num_terms": draw(st.integers(1, 3)),
          "interpolation": draw(st.sampled_from(["hypercube", "hypercube",
                                                 "simplex"])),
          "seed": draw(st.integers(0, 1000))}
  # output range
  bm = draw(st.sampled_from(["none", "both", "both", "min", "max"]))
  lo = S.f32(draw(st.sampled_from([-10.0, -1.0, 0.0, 0.5])))
  width = S.f32(draw(st.sampled_from([0.5, 1.0, 5.0])))
  desc["omin"] = lo if bm in ("both", "min") else None
  desc["omax"] = S.f32(lo + width) if bm in ("both", "max") else None
  desc["output_calibration"] = bool(
      not kind.startswith("stack") and draw(st.integers(0, 2)) == 0)
  nk = draw(st.integers(2, 5))
  init_lo = lo if desc["omin"] is not None else (
      desc["omax"] - width if desc["omax"] is not None else lo)
  desc["output_init"] = [float(v) for v in np.linspace(
      init_lo, init_lo + width, nk).astype(np.float32)]
  desc["output_kp_type"] = draw(st.sampled_from(["fixed", "fixed",
                                                 "learned_interior"]))
  # pairwise constraints inside all-vertices lattices (not RTL / KFL)
  desc["trust"] = None
  desc["dominance"] = None
  if param == "all_vertices" and kind in ("lattice", "ensemble_explicit",
                                          "stack_lattice"):
    mono_feats = [i for i, f in enumerate(feats)
                  if f["type"] == "numeric" and f["mono"] != 0]
    if mono_feats and nf >= 2 and draw(st.integers(0, 3)) == 0:
      m = draw(st.sampled_from(mono_feats))
      others = [i for i in range(nf) if i != m and feats[i]["type"] == "numeric"]
      if others:
        c = draw(st.sampled_from(others))
        desc["trust"] = {"main": m, "cond": c,
                         "type": draw(st.sampled_from(["edgeworth",
                                                       "trapezoid"])),
                         "direction": draw(st.sampled_from([1, -1]))}
    if len(mono_feats) >= 2 and desc["trust"] is None and draw(
        st.integers(0, 3)) == 0:
      a, b = draw(st.permutations(mono_feats))[:2]
      desc["dominance"] = {"dominant": a, "weak": b}
  if kind == "stack_rtl2":
    # calibrators (multi-unit) -> RTL(separate_outputs) -> RTL -> Linear
    if nf >= 2 and draw(st.integers(0, 3)) > 0:
      # both input kinds, so that some lattice can mix them
      feats[0]["mono"] = draw(st.sampled_from([1, -1]))
      feats[1]["mono"] = 0
      feats[1]["clamp_min"] = feats[1]["clamp_max"] = False
    desc["calib_units"] = draw(st.integers(1, 2))
    slots = nf * desc["calib_units"]
    r0 = draw(st.integers(min(2, slots), min(3, slots)))
    n0 = draw(st.integers(2, 4))
    while n0 * r0 < slots:
      n0 += 1
    desc["rtl0"] = {"num_lattices": n0, "lattice_rank": r0}
    r1 = draw(st.integers(1, min(2, n0)))
    n1 = draw(st.integers(1, 3))
    while n1 * r1 < n0:
      n1 += 1
    desc["rtl1"] = {"num_lattices": n1, "lattice_rank": r1}
  # ensemble structure
  if kind.startswith("ensemble"):
    desc["use_linear_combination"] = draw(st.booleans())
    desc["separate_calibrators"] = draw(st.booleans())
    desc["use_bias"] = bool(
        desc["use_linear_combination"] and desc["omin"] is None and
        desc["omax"] is None and not desc["output_calibration"] and
        draw(st.booleans()))
    rank = draw(st.integers(1, min(3, nf)))
    if kind == "ensemble_explicit":
      nl = draw(st.integers(2, 3))
      lattices = []
      for _ in range(nl):
        perm = draw(st.permutations(list(range(nf))))
        lattices.append(sorted(perm[:draw(st.integers(1, min(3, nf)))]))
      used = set(i for l in lattices for i in l)
      for i in range(nf):
        if i not in used:
          lattices[draw(st.integers(0, nl - 1))].append(i)
      if desc["trust"] is not None:
        # keep main and conditional feature together (as the library asks).
        for l in lattices:
          if desc["trust"]["cond"] in l and desc["trust"]["main"] not in l:
            l.append(desc["trust"]["main"])
      desc["lattices"] = [["f%d" % i for i in l] for l in lattices]
    else:
      nl = draw(st.integers(2, 4))
      while nl * rank < nf:
        nl += 1
      desc["num_lattices"] = nl
      desc["lattice_rank"] = rank
  return desc


def _feature_configs(desc):
  import tensorflow_lattice as tfl
  fcs = []
  for i, f in enumerate(desc["features"]):
    if f["type"] == "categorical":
      fcs.append(tfl.configs.FeatureConfig(
          name=f["name"], num_buckets=f["num_buckets"],
          lattice_size=f["lattice_size"],
          monotonicity=[tuple(p) for p in f["pairs"]] or "none",
          default_value=f["default"]))
      continue
    kw = {}
    t = desc.get("trust")
    if t is not None and t["cond"] == i:
      kw["reflects_trust_in"] = [tfl.configs.TrustConfig(
          feature_name=desc["features"][t["main"]]["name"],
          trust_type=t["type"], direction=t["direction"])]
    d = desc.get("dominance")
    if d is not None and d["dominant"] == i:
      kw["dominates"] = [tfl.configs.DominanceConfig(
          feature_name=desc["features"][d["weak"]]["name"],
          dominance_type="monotonic")]
    fcs.append(tfl.configs.FeatureConfig(
        name=f["name"], lattice_size=f["lattice_size"],
        monotonicity=f["mono"],
        pwl_calibration_input_keypoints=[float(v) for v in f["keypoints"]],
        pwl_calibration_num_keypoints=len(f["keypoints"]),
        pwl_calibration_clamp_min=f["clamp_min"],
        pwl_calibration_clamp_max=f["clamp_max"],
        pwl_calibration_convexity=f["convexity"],
        pwl_calibration_input_keypoints_type=f["kp_type"],
        default_value=f["default"], **kw))
  return fcs


def model_config(desc):
  """tfl.configs.* object for a premade description."""
  import tensorflow_lattice as tfl
  fcs = _feature_configs(desc)
  common = dict(feature_configs=fcs, output_min=desc["omin"],
                output_max=desc["omax"],
                output_calibration=desc["output_calibration"],
                output_calibration_num_keypoints=len(desc["output_init"]),
                output_initialization=list(desc["output_init"]),
                output_calibration_input_keypoints_type=desc["output_kp_type"])
  kind = desc["kind"]
  if kind == "linear":
    return tfl.configs.CalibratedLinearConfig(
        use_bias=desc["omin"] is None and desc["omax"] is None and
        not desc["output_calibration"], **common)
  if kind == "lattice":
    return tfl.configs.CalibratedLatticeConfig(
        interpolation=desc["interpolation"],
        parameterization=desc["parameterization"],
        num_terms=desc["num_terms"], random_seed=desc["seed"], **common)
  ens = dict(interpolation=desc["interpolation"],
             parameterization=desc["parameterization"],
             num_terms=desc["num_terms"], random_seed=desc["seed"],
             use_linear_combination=desc["use_linear_combination"],
             separate_calibrators=desc["separate_calibrators"],
             use_bias=desc["use_bias"], **common)
  if kind == "ensemble_explicit":
    return tfl.configs.CalibratedLatticeEnsembleConfig(
        lattices=[list(l) for l in desc["lattices"]], **ens)
  if kind == "ensemble_rtl":
    return tfl.configs.CalibratedLatticeEnsembleConfig(
        lattices="rtl_layer", num_lattices=desc["num_lattices"],
        lattice_rank=desc["lattice_rank"], **ens)
  cfg = tfl.configs.CalibratedLatticeEnsembleConfig(
      lattices="random", num_lattices=desc["num_lattices"],
      lattice_rank=desc["lattice_rank"], **ens)
  tfl.premade_lib.set_random_lattice_ensemble(cfg)
  return cfg


def build_model(desc):
  """Builds the real model. Returns (model, model_config or None)."""
  import tensorflow as tf
  import tensorflow_lattice as tfl
  import tf_keras as keras
  tf.random.set_seed(desc["seed"])
  np.random.seed(desc["seed"])
  kind = desc["kind"]
  if kind == "stack_rtl2":
    return _build_rtl_stack(desc), None
  if not kind.startswith("stack"):
    cfg = model_config(desc)
    cls = {"linear": tfl.premade.CalibratedLinear,
           "lattice": tfl.premade.CalibratedLattice}.get(
               kind, tfl.premade.CalibratedLatticeEnsemble)
    return cls(cfg), cfg
  # hand-assembled stack: ParallelCombination of calibrators into Lattice/Linear
  feats = desc["features"]
  comb = tfl.layers.ParallelCombination()
  to_lattice = kind == "stack_lattice"
  for f in feats:
    omin = 0.0 if to_lattice else None
    omax = float(f["lattice_size"] - 1) if to_lattice else None
    if f["type"] == "categorical":
      comb.append(tfl.layers.CategoricalCalibration(
          num_buckets=f["num_buckets"], output_min=omin, output_max=omax,
          monotonicities=[tuple(p) for p in f["pairs"]] or None,
          default_input_value=f["default"],
          kernel_initializer="uniform" if to_lattice else "zeros"))
    else:
      comb.append(tfl.layers.PWLCalibration(
          input_keypoints=[float(v) for v in f["keypoints"]],
          output_min=omin, output_max=omax, monotonicity=f["mono"],
          convexity=f["convexity"], clamp_min=bool(f["clamp_min"] and to_lattice),
          clamp_max=bool(f["clamp_max"] and to_lattice),
          impute_missing=f["default"] is not None,
          missing_input_value=f["default"],
          input_keypoints_type=f["kp_type"]))
  mono = [0 if (f["type"] == "categorical" and not f["pairs"]) or
          (f["type"] == "numeric" and f["mono"] == 0) else 1 for f in feats]
  model = keras.models.Sequential()
  model.add(keras.layers.InputLayer(input_shape=(len(feats),)))
  model.add(comb)
  if to_lattice:
    kw = {}
    t = desc.get("trust")
    if t is not None:
      key = "edgeworth_trusts" if t["type"] == "edgeworth" else "trapezoid_trusts"
      kw[key] = [(t["main"], t["cond"], t["direction"])]
    d = desc.get("dominance")
    if d is not None:
      kw["monotonic_dominances"] = [(d["dominant"], d["weak"])]
    model.add(tfl.layers.Lattice(
        lattice_sizes=[f["lattice_size"] for f in feats], monotonicities=mono,
        output_min=desc["omin"], output_max=desc["omax"],
        interpolation=desc["interpolation"], **kw))
  else:
    model.add(tfl.layers.Linear(num_input_dims=len(feats),
                                monotonicities=mono))
  return model, None


def _build_rtl_stack(desc):
  """The docstring example of tfl.layers.RTL: multi-unit calibrators feed an RTL
  with separate outputs, which feeds a second RTL and an increasing Linear."""
  import tensorflow_lattice as tfl
  import tf_keras as keras
  feats = desc["features"]
  size = feats[0]["lattice_size"]
  inputs, groups = [], {"increasing": [], "unconstrained": []}
  for f in feats:
    inp = keras.Input(shape=(1,))
    inputs.append(inp)
    cal = tfl.layers.PWLCalibration(
        input_keypoints=[float(v) for v in f["keypoints"]],
        units=desc["calib_units"], output_min=0.0, output_max=float(size - 1),
        monotonicity=f["mono"], impute_missing=f["default"] is not None,
        missing_input_value=f["default"])(inp)
    groups["increasing" if f["mono"] != 0 else "unconstrained"].append(cal)
  groups = {k: v for k, v in groups.items() if v}
  rtl0 = tfl.layers.RTL(lattice_size=size, output_min=0.0,
                        output_max=float(size - 1), separate_outputs=True,
                        random_seed=desc["seed"], interpolation=desc[
                            "interpolation"], **desc["rtl0"])(groups)
  rtl1 = tfl.layers.RTL(lattice_size=size, random_seed=desc["seed"] + 1,
                        **desc["rtl1"])(rtl0)
  n1 = desc["rtl1"]["num_lattices"]
  out = tfl.layers.Linear(num_input_dims=n1,
                          monotonicities=["increasing"] * n1)(rtl1)
  return keras.Model(inputs=inputs, outputs=out)


def model_inputs(desc, x):
  """x: (n, num_features) float64 array -> inputs in the form the model takes."""
  if desc["kind"] == "stack_rtl2":
    return [x[:, j:j + 1].astype(np.float32) for j in range(x.shape[1])]
  if desc["kind"].startswith("stack"):
    return x.astype(np.float32)
  cols = []
  for j, f in enumerate(desc["features"]):
    if f["type"] == "categorical":
      cols.append(x[:, j:j + 1].astype(np.int32))
    else:
      cols.append(x[:, j:j + 1].astype(np.float32))
  return cols


def bounded(desc):
  """(omin, omax) the model output must respect, or (None, None)."""
  if desc["kind"] in ("stack_linear", "stack_rtl2"):
    return None, None
  return desc["omin"], desc["omax"]


def base_points(desc, n, seed):
  """n generic (non-missing) input rows as float64 array."""
  rs = np.random.RandomState(seed)
  cols = []
  for f in desc["features"]:
    if f["type"] == "categorical":
      hi = f["num_buckets"]
      cols.append(rs.randint(0, hi, size=n).astype(np.float64))
    else:
      kp = np.asarray(f["keypoints"], np.float64)
      span = kp[-1] - kp[0]
      choice = rs.randint(0, 5, size=n)
      v = np.where(choice == 0, kp[0] - rs.uniform(0, 2, n) * span - 0.5,
          np.where(choice == 1, kp[-1] + rs.uniform(0, 2, n) * span + 0.5,
          np.where(choice == 2, kp[rs.randint(0, len(kp), size=n)],
                   rs.uniform(kp[0], kp[-1], n))))
      v = v.astype(np.float32).astype(np.float64)
      if f["default"] is not None:
        v = np.where(v == f["default"], v + 1.0, v)
      cols.append(v)
  return np.stack(cols, axis=1)
